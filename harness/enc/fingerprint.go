package enc

import (
	"crypto/sha256"
	"encoding/hex"
	"fmt"

	"github.com/boombuler/barcode"
)

// Fingerprint hashes everything observable about the outcome of a call: error text, or bounds,
// all pixels (concrete colour values), colour model identity, colour scheme, content, metadata
// and CheckSum (if exposed).
func Fingerprint(bc barcode.Barcode, err error, pv any) string {
	h := sha256.New()
	switch {
	case pv != nil:
		fmt.Fprintf(h, "PANIC %v", pv)
	case err != nil:
		fmt.Fprintf(h, "ERR %s", err.Error())
	default:
		b := bc.Bounds()
		fmt.Fprintf(h, "bounds %v|", b)
		for y := b.Min.Y; y < b.Max.Y; y++ {
			for x := b.Min.X; x < b.Max.X; x++ {
				fmt.Fprintf(h, "%#v,", bc.At(x, y))
			}
		}
		fmt.Fprintf(h, "|content %q|meta %+v|model %s", bc.Content(), bc.Metadata(), ModelName(bc))
		if c, ok := bc.(barcode.BarcodeColor); ok {
			cs := c.ColorScheme()
			fmt.Fprintf(h, "|scheme %#v %#v %v", cs.Foreground, cs.Background, modelName(cs.Model))
		}
		if cs, ok := bc.(barcode.BarcodeIntCS); ok {
			fmt.Fprintf(h, "|checksum %d", cs.CheckSum())
		}
	}
	return hex.EncodeToString(h.Sum(nil))[:32]
}

func modelName(m any) string {
	for _, n := range []string{"gray", "gray16", "rgba", "nrgba", "cmyk"} {
		if m == any(ColorModelOf(n)) {
			return n
		}
	}
	return fmt.Sprintf("%T", m)
}

// ModelName names the colour model a barcode reports.
func ModelName(bc barcode.Barcode) string { return modelName(bc.ColorModel()) }
