package enc

// Package enc is a uniform description of "one call of one exported encoder", shared by the
// property checks (C09, C10, C11, C15, C16) and by cmd/oneshot.

import (
	"encoding/hex"
	"encoding/json"
	"fmt"
	"image"
	"image/color"
	"strconv"
	"sync"

	"github.com/boombuler/barcode"
	"github.com/boombuler/barcode/aztec"
	"github.com/boombuler/barcode/codabar"
	"github.com/boombuler/barcode/code128"
	"github.com/boombuler/barcode/code39"
	"github.com/boombuler/barcode/code93"
	"github.com/boombuler/barcode/datamatrix"
	"github.com/boombuler/barcode/ean"
	"github.com/boombuler/barcode/pdf417"
	"github.com/boombuler/barcode/qr"
	"github.com/boombuler/barcode/twooffive"
	"github.com/boombuler/barcode/utils"
)

type ColorSpec struct {
	Model string    `json:"model"` // gray, gray16, rgba, nrgba, cmyk, custom (caller-defined type), uniform (*image.Uniform)
	V     [4]uint16 `json:"v"`
}

func (c ColorSpec) Color() color.Color {
	switch c.Model {
	case "gray":
		return color.Gray{Y: uint8(c.V[0])}
	case "gray16":
		return color.Gray16{Y: c.V[0]}
	case "rgba":
		return color.RGBA{R: uint8(c.V[0]), G: uint8(c.V[1]), B: uint8(c.V[2]), A: uint8(c.V[3])}
	case "nrgba":
		return color.NRGBA{R: uint8(c.V[0]), G: uint8(c.V[1]), B: uint8(c.V[2]), A: uint8(c.V[3])}
	case "cmyk":
		return color.CMYK{C: uint8(c.V[0]), M: uint8(c.V[1]), Y: uint8(c.V[2]), K: uint8(c.V[3])}
	case "slice": // a caller-defined colour type that is NOT comparable (a slice): `a == b` on two of them panics
		return SliceColor{c.V[0], c.V[1], c.V[2], c.V[3]}
	case "custom": // a caller-defined colour type (comparable value)
		return CustomColor{c.V[0], c.V[1], c.V[2], c.V[3]}
	case "uniform": // *image.Uniform, as image.Black / image.White are: a pointer; one instance per value
		uniformMu.Lock()
		defer uniformMu.Unlock()
		if u, ok := uniforms[c.V]; ok {
			return u
		}
		u := image.NewUniform(color.RGBA{R: uint8(c.V[0]), G: uint8(c.V[1]), B: uint8(c.V[2]), A: uint8(c.V[3])})
		uniforms[c.V] = u
		return u
	}
	return color.Gray16{Y: c.V[0]}
}

// SliceColor: ink coverages kept in a slice; implements color.Color, cannot be compared with ==.
type SliceColor []uint16

func (c SliceColor) RGBA() (r, g, b, a uint32) {
	return uint32(c[0]), uint32(c[1]), uint32(c[2]), uint32(c[3])
}

// CustomColor: a colour type of the caller's own (16-bit alpha-premultiplied components).
type CustomColor struct{ R, G, B, A uint16 }

func (c CustomColor) RGBA() (r, g, b, a uint32) {
	return uint32(c.R), uint32(c.G), uint32(c.B), uint32(c.A)
}

var (
	uniformMu sync.Mutex
	uniforms  = map[[4]uint16]*image.Uniform{}
)

func ColorModelOf(name string) color.Model {
	switch name {
	case "gray":
		return color.GrayModel
	case "gray16":
		return color.Gray16Model
	case "rgba":
		return color.RGBAModel
	case "nrgba":
		return color.NRGBAModel
	case "cmyk":
		return color.CMYKModel
	case "palette": // image/color's own Palette type is a slice: a model value that cannot be compared or hashed
		return palette
	}
	return color.Gray16Model
}

var palette = color.Palette{color.RGBA{255, 255, 255, 255}, color.RGBA{0, 0, 0, 255}, color.RGBA{200, 0, 0, 255}, color.RGBA{0, 0, 160, 255}}

type SchemeSpec struct {
	Predefined int       `json:"predefined"`      // 0 = custom, 1..4 = ColorScheme8/16/24/32
	Model      string    `json:"model,omitempty"` // colour model of the scheme; default: the foreground's
	FG         ColorSpec `json:"fg"`
	BG         ColorSpec `json:"bg"`
}

func (s SchemeSpec) Scheme() barcode.ColorScheme {
	switch s.Predefined {
	case 1:
		return barcode.ColorScheme8
	case 2:
		return barcode.ColorScheme16
	case 3:
		return barcode.ColorScheme24
	case 4:
		return barcode.ColorScheme32
	}
	m := s.Model
	if m == "" {
		m = s.FG.Model
	}
	return barcode.ColorScheme{Model: ColorModelOf(m), Foreground: s.FG.Color(), Background: s.BG.Color()}
}

type EncSpec struct {
	Fam     string      `json:"fam"` // qr datamatrix aztec pdf417 code128 code128nc code39 code93 codabar ean 2of5 itf
	Content BStr        `json:"content"`
	A       int         `json:"a,omitempty"`  // qr level | pdf417 security level | aztec ecc percent
	B       int         `json:"b,omitempty"`  // qr mode | aztec layers
	F1      bool        `json:"f1,omitempty"` // code39/93 includeChecksum
	F2      bool        `json:"f2,omitempty"` // code39/93 fullASCII
	Scheme  *SchemeSpec `json:"scheme,omitempty"`
}

var AllFamilies = []string{"qr", "datamatrix", "aztec", "pdf417", "code128", "code128nc", "code39", "code93", "codabar", "ean", "2of5", "itf"}

func Is2D(fam string) bool {
	return fam == "qr" || fam == "datamatrix" || fam == "aztec" || fam == "pdf417"
}

// encodeSpec performs the call. The content is copied first, so that the caller's buffer in
// the spec is never handed to the library.
// ForeignUtils uses the exported utils API the way an application with its own Reed-Solomon code would: fields with
// the library's own primitive polynomials but another generator base, fields of the library's sizes with other
// polynomials, encoders asked for many check symbols. Barcode encoders must not be influenced by it (and vice
// versa). Returns a digest of the results.
func ForeignUtils(variant int) string {
	type fs struct{ pp, size, base int }
	all := []fs{{0x12D, 256, 0}, {0x11D, 256, 1}, {0x12B, 256, 0}, {0x43, 64, 0}, {0x13, 16, 0}, {0x19, 16, 1}, {0x409, 1024, 0}, {0x1069, 4096, 0}, {0x805, 2048, 1}}
	h := 0
	for i, f := range all {
		if variant > 0 && (i+variant)%3 == 0 {
			continue
		}
		gf := utils.NewGaloisField(f.pp, f.size, f.base)
		rs := utils.NewReedSolomonEncoder(gf)
		data := make([]int, 20)
		for k := range data {
			data[k] = (k*7 + variant + i) % f.size
		}
		for _, n := range []int{3, 10, min(68, f.size-2), 7} {
			for _, c := range rs.Encode(data, n) {
				h = h*31 + c
			}
		}
		h = h*31 + gf.Multiply(3%f.size, 5%f.size)
	}
	return fmt.Sprint(h)
}

func Encode(s EncSpec) (bc barcode.Barcode, err error, pv any) {
	content := string(s.Content)
	if s.Fam == "utils" { // not an encoder call: foreign use of the exported utils API (see ForeignUtils)
		pv = Try(func() { err = fmt.Errorf("utils:%s", ForeignUtils(s.A)) })
		return nil, err, pv
	}
	pv = Try(func() {
		var ics barcode.BarcodeIntCS
		if s.Scheme == nil {
			switch s.Fam {
			case "qr":
				bc, err = qr.Encode(content, qr.ErrorCorrectionLevel(s.A), qr.Encoding(s.B))
			case "datamatrix":
				bc, err = datamatrix.Encode(content)
			case "aztec":
				bc, err = aztec.Encode([]byte(content), s.A, s.B)
			case "pdf417":
				bc, err = pdf417.Encode(content, byte(s.A))
			case "code128":
				ics, err = code128.Encode(content)
			case "code128nc":
				bc, err = code128.EncodeWithoutChecksum(content)
			case "code39":
				ics, err = code39.Encode(content, s.F1, s.F2)
			case "code93":
				bc, err = code93.Encode(content, s.F1, s.F2)
			case "codabar":
				bc, err = codabar.Encode(content)
			case "ean":
				ics, err = ean.Encode(content)
			case "2of5":
				bc, err = twooffive.Encode(content, false)
			case "itf":
				bc, err = twooffive.Encode(content, true)
			default:
				panic("unknown family " + s.Fam)
			}
		} else {
			cs := s.Scheme.Scheme()
			switch s.Fam {
			case "qr":
				bc, err = qr.EncodeWithColor(content, qr.ErrorCorrectionLevel(s.A), qr.Encoding(s.B), cs)
			case "datamatrix":
				bc, err = datamatrix.EncodeWithColor(content, cs)
			case "aztec":
				bc, err = aztec.EncodeWithColor([]byte(content), s.A, s.B, cs)
			case "pdf417":
				bc, err = pdf417.EncodeWithColor(content, byte(s.A), cs)
			case "code128":
				ics, err = code128.EncodeWithColor(content, cs)
			case "code128nc":
				bc, err = code128.EncodeWithoutChecksumWithColor(content, cs)
			case "code39":
				ics, err = code39.EncodeWithColor(content, s.F1, s.F2, cs)
			case "code93":
				bc, err = code93.EncodeWithColor(content, s.F1, s.F2, cs)
			case "codabar":
				bc, err = codabar.EncodeWithColor(content, cs)
			case "ean":
				ics, err = ean.EncodeWithColor(content, cs)
			case "2of5":
				bc, err = twooffive.EncodeWithColor(content, false, cs)
			case "itf":
				bc, err = twooffive.EncodeWithColor(content, true, cs)
			default:
				panic("unknown family " + s.Fam)
			}
		}
		if ics != nil {
			bc = ics
		}
	})
	return
}

// BStr is a byte string that survives JSON (arbitrary bytes, invalid UTF-8 included).
type BStr []byte

type bstrJSON struct {
	Q   string `json:"q"`
	Hex string `json:"hex"`
}

func (b BStr) MarshalJSON() ([]byte, error) {
	q := strconv.QuoteToASCII(string(b))
	if len(q) > 400 {
		q = q[:400] + "…(" + strconv.Itoa(len(b)) + " bytes)"
	}
	return json.Marshal(bstrJSON{Q: q, Hex: hex.EncodeToString(b)})
}

func (b *BStr) UnmarshalJSON(d []byte) error {
	var j bstrJSON
	if err := json.Unmarshal(d, &j); err != nil {
		return err
	}
	if j.Hex == "" && j.Q != "" {
		s, err := strconv.Unquote(j.Q)
		if err != nil {
			return err
		}
		*b = BStr(s)
		return nil
	}
	v, err := hex.DecodeString(j.Hex)
	*b = v
	return err
}

func (b BStr) String() string { return string(b) }

// Try runs a piece of library code and returns the recovered panic value (nil if none).
func Try(fn func()) (pv any) {
	defer func() {
		if r := recover(); r != nil {
			pv = fmt.Sprintf("panic: %v", r)
		}
	}()
	fn()
	return nil
}

// Label names the entry point variant.
func (s EncSpec) Label() string {
	c := "plain"
	if s.Scheme != nil {
		c = "colour"
	}
	return fmt.Sprintf("%s %s", s.Fam, c)
}
