package props

// C09: Scale / ScaleWithFill against a pixel model.

import (
	"fmt"
	"image"
	"image/color"
	"testing"

	"github.com/boombuler/barcode"
	"pgregory.net/rapid"
)

type ScaleStep struct {
	W    int        `json:"w"`
	H    int        `json:"h"`
	Fill *ColorSpec `json:"fill,omitempty"` // nil: barcode.Scale (default fill)
	// Sibling: scale the barcode the current one was made from once more (a second, different scaling of the same
	// parent) instead of the current one; the earlier results must stay what they were
	Sibling bool `json:"sibling,omitempty"`
}

type ScaleCase struct {
	Source EncSpec     `json:"source"`
	Steps  []ScaleStep `json:"steps"`
}

type scaleOutcome struct {
	ok         bool // source accepted by its encoder
	successes  int
	errors     int
	factorMax  int
	hadMargin  bool
	chainDepth int
	siblings   int
}

// pixelHash reads every pixel and the accessors of a barcode (snapshot comparison of earlier results).
func pixelHash(bc barcode.Barcode) uint64 {
	h := uint64(1469598103934665603)
	mix := func(v uint32) {
		h ^= uint64(v)
		h *= 1099511628211
	}
	b := bc.Bounds()
	mix(uint32(b.Dx()))
	mix(uint32(b.Dy()))
	for y := b.Min.Y; y < b.Max.Y; y++ {
		for x := b.Min.X; x < b.Max.X; x++ {
			r, g, bl, a := bc.At(x, y).RGBA()
			mix(r)
			mix(g)
			mix(bl)
			mix(a)
		}
	}
	for _, ch := range bc.Content() + "|" + bc.Metadata().CodeKind {
		mix(uint32(ch))
	}
	return h
}

// checkScaleStep verifies one scaling of src; returns the result (nil when an error was expected and returned).
func checkScaleStep(t TB, c any, src barcode.Barcode, st ScaleStep, depth int) (barcode.Barcode, int, bool) {
	const P, K = "C09", "scale"
	sb := src.Bounds()
	W, H := sb.Dx(), sb.Dy()
	if sb.Min != (image.Point{}) {
		failf(t, P, K, c, "source bounds %v do not start at (0,0)", sb)
	}
	dims := src.Metadata().Dimensions
	var res barcode.Barcode
	var err error
	var fill color.Color
	if pv := try(func() {
		if st.Fill == nil {
			res, err = barcode.Scale(src, st.W, st.H)
		} else {
			fill = st.Fill.Color()
			res, err = barcode.ScaleWithFill(src, st.W, st.H, fill)
		}
	}); pv != nil {
		failf(t, P, K, c, "depth %d: Scale to %dx%d: %v", depth, st.W, st.H, pv)
	}
	if st.Fill == nil {
		if bcCol, ok := src.(barcode.BarcodeColor); ok {
			fill = bcCol.ColorScheme().Background
		} else {
			fill = color.White
		}
	}
	f := st.W / W
	if dims == 2 && st.H/H < f {
		f = st.H / H
	}
	if dims != 1 && dims != 2 {
		failf(t, P, K, c, "source reports %d dimensions", dims)
	}
	if f < 1 {
		if err == nil || !nilBarcode(res) {
			failf(t, P, K, c, "depth %d: scaling a %dx%d %dD symbol to %dx%d must fail, got barcode nil=%v err=%v", depth, W, H, dims, st.W, st.H, nilBarcode(res), err)
		}
		return nil, 0, false
	}
	if err != nil || nilBarcode(res) {
		failf(t, P, K, c, "depth %d: scaling a %dx%d %dD symbol to %dx%d failed although factor %d fits: %v", depth, W, H, dims, st.W, st.H, f, err)
	}
	if rb := res.Bounds(); rb != image.Rect(0, 0, st.W, st.H) {
		failf(t, P, K, c, "depth %d: result bounds %v, want (0,0)-(%d,%d)", depth, rb, st.W, st.H)
	}
	mx := st.W - W*f
	my := st.H - H*f
	// candidate offsets: centred to within one pixel
	oxs := []int{mx / 2, (mx + 1) / 2}
	oys := []int{my / 2, (my + 1) / 2}
	if dims == 1 {
		oys = []int{0}
	}
	matches := func(ox, oy int) (bool, string) {
		for y := 0; y < st.H; y++ {
			for x := 0; x < st.W; x++ {
				var want color.Color
				inX := x >= ox && x < ox+W*f
				if dims == 1 {
					if inX {
						want = src.At((x-ox)/f, 0)
					} else {
						want = fill
					}
				} else {
					if inX && y >= oy && y < oy+H*f {
						want = src.At((x-ox)/f, (y-oy)/f)
					} else {
						want = fill
					}
				}
				if got := res.At(x, y); got != want {
					return false, fmt.Sprintf("pixel (%d,%d) is %v, model (offset %d,%d factor %d) says %v", x, y, got, ox, oy, f, want)
				}
			}
		}
		return true, ""
	}
	var firstMsg string
	found := false
	if pv := try(func() {
		for _, ox := range oxs {
			for _, oy := range oys {
				ok, msg := matches(ox, oy)
				if ok {
					found = true
					return
				}
				if firstMsg == "" {
					firstMsg = msg
				}
			}
		}
	}); pv != nil {
		failf(t, P, K, c, "depth %d: reading pixels of the %dx%d result: %v", depth, st.W, st.H, pv)
	}
	if !found {
		failf(t, P, K, c, "depth %d: %dx%d %dD source scaled to %dx%d: %s", depth, W, H, dims, st.W, st.H, firstMsg)
	}
	// At(x,y) must be a function of (x,y) only: read again bottom-up / right-to-left and in a scattered order
	// and compare with the raster read (an image that caches rows or renders lazily must still answer the same)
	if pv := try(func() {
		n := st.W * st.H
		first := make([]color.Color, n)
		for i := 0; i < n; i++ {
			first[i] = res.At(i%st.W, i/st.W)
		}
		for i := n - 1; i >= 0; i-- {
			if got := res.At(i%st.W, i/st.W); got != first[i] {
				firstMsg = fmt.Sprintf("pixel (%d,%d) reads %v in raster order and %v when the image is read bottom-up", i%st.W, i/st.W, first[i], got)
				return
			}
		}
		stride := 7919 % n
		if stride == 0 || gcd(stride, n) != 1 {
			stride = 1
			for _, p := range []int{104729, 7907, 613, 101, 31, 7} {
				if gcd(p%n, n) == 1 && p%n != 0 {
					stride = p % n
					break
				}
			}
		}
		for k, i := 0, 0; k < n; k, i = k+1, (i+stride)%n {
			if got := res.At(i%st.W, i/st.W); got != first[i] {
				firstMsg = fmt.Sprintf("pixel (%d,%d) reads %v in raster order and %v under scattered access", i%st.W, i/st.W, first[i], got)
				return
			}
		}
		firstMsg = ""
	}); pv != nil {
		failf(t, P, K, c, "depth %d: re-reading pixels: %v", depth, pv)
	}
	if firstMsg != "" {
		failf(t, P, K, c, "depth %d: %dx%d %dD source scaled to %dx%d: %s", depth, W, H, dims, st.W, st.H, firstMsg)
	}
	var aerr error
	if pv := try(func() {
		if st.W*st.H <= 300000 {
			aerr = accessorsAgree(res)
		}
	}); pv != nil {
		failf(t, P, K, c, "depth %d: reading the result through RGBA64At / image/draw: %v", depth, pv)
	}
	if aerr != nil {
		failf(t, P, K, c, "depth %d: %dx%d result: %v", depth, st.W, st.H, aerr)
	}
	if res.Content() != src.Content() {
		failf(t, P, K, c, "depth %d: Content() %q differs from the source's %q", depth, res.Content(), src.Content())
	}
	if res.Metadata() != src.Metadata() {
		failf(t, P, K, c, "depth %d: Metadata() %+v differs from the source's %+v", depth, res.Metadata(), src.Metadata())
	}
	if rc, ok := res.(barcode.BarcodeColor); ok && st.W*st.H <= 300000 {
		// a result that reports a colour scheme of its own: its symbol area must be drawn in exactly those two colours
		rcs := rc.ColorScheme()
		if pv := try(func() {
			for y := 0; y < st.H && firstMsg == ""; y++ {
				for x := 0; x < st.W; x++ {
					if px := res.At(x, y); !sameValue(px, rcs.Foreground) && !sameValue(px, rcs.Background) && !sameValue(px, fill) {
						firstMsg = fmt.Sprintf("the result reports the colour scheme %#v / %#v, pixel (%d,%d) is %#v (neither of them nor the fill colour)", rcs.Foreground, rcs.Background, x, y, px)
						break
					}
				}
			}
		}); pv != nil {
			failf(t, P, K, c, "depth %d: %v", depth, pv)
		}
		if firstMsg != "" {
			failf(t, P, K, c, "depth %d: %s", depth, firstMsg)
		}
	}
	if _, srcHas := src.(barcode.BarcodeIntCS); !srcHas {
		if rcs, ok := res.(barcode.BarcodeIntCS); ok {
			failf(t, P, K, c, "depth %d: the source exposes no CheckSum(), the scaled barcode does (value %d): the accessors of the result do not equal those of the source", depth, rcs.CheckSum())
		}
	}
	if scs, ok := src.(barcode.BarcodeIntCS); ok {
		rcs, ok2 := res.(barcode.BarcodeIntCS)
		if !ok2 {
			failf(t, P, K, c, "depth %d: source exposes CheckSum(), the scaled barcode does not", depth)
		}
		if rcs.CheckSum() != scs.CheckSum() {
			failf(t, P, K, c, "depth %d: CheckSum() %d differs from the source's %d", depth, rcs.CheckSum(), scs.CheckSum())
		}
	}
	return res, f, mx > 0 || (dims == 2 && my > 0)
}

func checkScale(t TB, c ScaleCase) scaleOutcome {
	noteCase("C09", "scale", c)
	var out scaleOutcome
	src, err, pv := encodeSpec(c.Source)
	if pv != nil {
		failf(t, "C09", "scale", c, "encoding the source: %v", pv)
	}
	if err != nil || nilBarcode(src) {
		return out
	}
	out.ok = true
	cur := src
	var parent barcode.Barcode
	type made struct {
		bc   barcode.Barcode
		hash uint64
		step int
	}
	var results []made
	verifyEarlier := func(after int) {
		for _, m := range results {
			if m.step == after {
				continue
			}
			var h uint64
			if pv := try(func() { h = pixelHash(m.bc) }); pv != nil {
				failf(t, "C09", "scale", c, "reading the result of step %d again after step %d: %v", m.step, after, pv)
			}
			if h != m.hash {
				failf(t, "C09", "scale", c, "the image returned by step %d is no longer what it was once step %d had been made (an earlier result is not a snapshot)", m.step, min(after, len(c.Steps)-1))
			}
		}
	}
	for depth, st := range c.Steps {
		from := cur
		if st.Sibling && parent != nil {
			from = parent
			out.siblings++
		}
		res, f, margin := checkScaleStep(t, c, from, st, depth)
		if res == nil {
			out.errors++
			continue // an error leaves the chain where it was
		}
		out.successes++
		out.chainDepth++
		if f > out.factorMax {
			out.factorMax = f
		}
		out.hadMargin = out.hadMargin || margin
		if b := res.Bounds(); b.Dx()*b.Dy() <= 150000 {
			results = append(results, made{res, pixelHash(res), depth})
		}
		if st.Sibling && from == parent {
			verifyEarlier(depth)
		} else {
			parent = cur
		}
		cur = res
	}
	if len(results) > 1 {
		verifyEarlier(len(c.Steps))
	}
	return out
}

func init() { register("scale", func(t TB, c ScaleCase) { checkScale(t, c) }) }

func genScaleCase(t *rapid.T) ScaleCase {
	c := ScaleCase{Source: genEncSpec(t, rapid.SampledFrom([]int{0, 0, 0, 1}).Draw(t, "size"))}
	if rapid.Bool().Draw(t, "coloured") {
		c.Source.Scheme = genScheme(t)
	}
	// the generator needs the source size: encode once (pure function of the drawn spec)
	W, H, dims := 30, 30, 2
	if bc, err, pv := encodeSpec(c.Source); pv == nil && err == nil && !nilBarcode(bc) {
		W, H, dims = bc.Bounds().Dx(), bc.Bounds().Dy(), int(bc.Metadata().Dimensions)
	}
	n := rapid.IntRange(1, 4).Draw(t, "nsteps")
	deep := rapid.IntRange(0, 4).Draw(t, "deep") == 0
	huge := !deep && rapid.IntRange(0, 39).Draw(t, "huge") == 0
	budget := 600000
	if huge {
		budget = 2000000
	}
	if deep { // long chains of small enlargements with second scalings of the same parent in between
		n = rapid.IntRange(4, 9).Draw(t, "ndeep")
	}
	for i := 0; i < n; i++ {
		var st ScaleStep
		pick := func(base int, label string) int {
			if deep && base > 40 {
				return base + rapid.IntRange(0, 3).Draw(t, label+"grow")
			}
			if huge && i == 0 { // print-sized enlargement: factors 20..130 (arithmetic that is exact only for small factors)
				return base*rapid.IntRange(20, 130).Draw(t, label+"hugef") + rapid.IntRange(0, 40).Draw(t, label+"hugem")
			}
			switch rapid.IntRange(0, 7).Draw(t, label+"k") {
			case 0:
				return rapid.IntRange(1, base).Draw(t, label+"small") // too small or exact
			case 1:
				return base
			case 2:
				return base*rapid.IntRange(1, 3).Draw(t, label+"f") + rapid.IntRange(0, 3).Draw(t, label+"m")
			case 3:
				return base*rapid.IntRange(1, 3).Draw(t, label+"f2") - 1
			default:
				return rapid.IntRange(1, 3*base+2).Draw(t, label)
			}
		}
		st.W = pick(W, "w")
		if dims == 1 {
			st.H = rapid.IntRange(1, 5).Draw(t, "h1d")
		} else {
			st.H = pick(H, "h")
		}
		if st.W < 1 {
			st.W = 1
		}
		if st.H < 1 {
			st.H = 1
		}
		// keep the pixel budget bounded
		for st.W*st.H > budget {
			st.W = st.W*2/3 + 1
			st.H = st.H*2/3 + 1
		}
		if rapid.Bool().Draw(t, "withfill") {
			f := genColorSpec(t, rapid.SampledFrom([]string{"gray", "gray16", "rgba", "nrgba", "cmyk"}).Draw(t, "fm"), "fill")
			st.Fill = &f
		}
		if i > 0 && rapid.IntRange(0, 3).Draw(t, "sibling") == 0 {
			st.Sibling = true // scales the previous parent: the size bookkeeping below is then only approximate
		}
		c.Steps = append(c.Steps, st)
		// following steps scale the result
		f := st.W / W
		if dims == 2 && st.H/H < f {
			f = st.H / H
		}
		if f >= 1 {
			W, H = st.W, st.H
		}
	}
	return c
}

func c09Account(st *Stats, c ScaleCase, o scaleOutcome) {
	if !o.ok {
		st.Class("source rejected by its encoder")
		return
	}
	st.ClassN("scalings succeeded", int64(o.successes))
	st.ClassN("scalings refused (too small)", int64(o.errors))
	st.Cover("source_families", c.Source.Label())
	if o.chainDepth >= 2 {
		st.Class("chain of >= 2 scalings")
	}
	if o.chainDepth >= 5 {
		st.Class("chain of >= 5 scalings")
	}
	if o.factorMax >= 20 {
		st.Class("enlargement by a factor >= 20")
	}
	if o.factorMax >= 62 {
		st.Class("enlargement by a factor >= 62")
	}
	if o.siblings > 0 {
		st.Class("history with a second scaling of the same parent (earlier results re-read afterwards)")
	}
	if o.successes > 0 && (o.factorMax >= 2 || o.hadMargin) {
		st.NonTrivial(H(fmt.Sprintf("%+v", c)))
	}
}

func TestC09Rapid(t *testing.T) {
	st := NewStats("C09", "rapid")
	runRapid(t, st, func(rt *rapid.T) {
		c := genScaleCase(rt)
		o := checkScale(rt, c)
		c09Account(st, c, o)
		if len(c.Source.Content) < 10 && len(c.Steps) <= 2 {
			st.Sample(c.Source.Label(), c)
		}
	})
}

// TestC09Window: for a fixed set of small sources, every (width, height) in 1..3*size+2
// (1D: every width x heights 1..3), default fill and explicit fill, each result then scaled again.
func TestC09Window(t *testing.T) {
	st := NewStats("C09", "window")
	defer st.Flush()
	ct := &collectTB{}
	red := &ColorSpec{Model: "nrgba", V: [4]uint16{200, 10, 20, 255}}
	blue := &SchemeSpec{FG: ColorSpec{Model: "rgba", V: [4]uint16{0, 0, 90, 255}}, BG: ColorSpec{Model: "rgba", V: [4]uint16{250, 250, 200, 255}}}
	sources := []EncSpec{
		{Fam: "datamatrix", Content: BStr("A")},
		{Fam: "datamatrix", Content: BStr("ABCDEF"), Scheme: blue},
		{Fam: "aztec", Content: BStr("Az"), A: 33},
		{Fam: "pdf417", Content: BStr("P")},
		{Fam: "ean", Content: BStr("1234567"), Scheme: blue},
		{Fam: "itf", Content: BStr("12")},
		{Fam: "codabar", Content: BStr("A1B")},
		{Fam: "code39", Content: BStr("A"), F1: true},
	}
	if thorough() {
		sources = append(sources, EncSpec{Fam: "qr", Content: BStr("1"), A: 0, B: 0}, EncSpec{Fam: "code128", Content: BStr("ab")},
			EncSpec{Fam: "code93", Content: BStr("Z")}, EncSpec{Fam: "2of5", Content: BStr("7")}, EncSpec{Fam: "qr", Content: BStr("HELLO"), A: 3, B: 2, Scheme: blue})
	}
	type job struct {
		src  int
		w, h int
	}
	var jobs []job
	for si, s := range sources {
		bc, err, pv := encodeSpec(s)
		if pv != nil || err != nil || nilBarcode(bc) {
			t.Fatalf("window source %d (%+v) was not encodable: %v %v", si, s, err, pv)
		}
		W, H := bc.Bounds().Dx(), bc.Bounds().Dy()
		if is2D(s.Fam) {
			for w := 1; w <= 3*W+2; w++ {
				for h := 1; h <= 3*H+2; h++ {
					// full window for the small ones; for larger sources thin out the interior of the window
					if W*H > 500 && !(w%W <= 2 || w%W == W-1) && !(h%H <= 2 || h%H == H-1) && (w+h)%7 != 0 {
						continue
					}
					jobs = append(jobs, job{si, w, h})
				}
			}
		} else {
			for w := 1; w <= 3*W+2; w++ {
				for h := 1; h <= 3; h++ {
					jobs = append(jobs, job{si, w, h})
				}
			}
		}
	}
	parallelFor(len(jobs), 16, func(i int) {
		if ct.Failed() {
			return
		}
		j := jobs[i]
		ct.guard(func() {
			c := ScaleCase{Source: sources[j.src], Steps: []ScaleStep{{W: j.w, H: j.h}}}
			if (j.w+j.h)%2 == 0 {
				c.Steps[0].Fill = red
			}
			// second step: scale the result once more by a factor 2 with margins 1 / 0
			c.Steps = append(c.Steps, ScaleStep{W: 2*j.w + 1, H: 2 * j.h})
			o := checkScale(ct, c)
			st.Eval()
			c09Account(st, c, o)
		})
	})
	st.Set("exhaustive", true)
	st.Set("exhaustive_domain", fmt.Sprintf("%d fixed sources x every (w,h) in 1..3*size+2 (1D: heights 1..3), alternating default/explicit fill, each followed by a second scaling", len(sources)))
	st.Sample("window", ScaleCase{Source: sources[0], Steps: []ScaleStep{{W: 31, H: 25, Fill: red}, {W: 63, H: 50}}})
	if ct.Failed() {
		t.Fatalf("%s", ct.first)
	}
}

func gcd(a, b int) int {
	for b != 0 {
		a, b = b, a%b
	}
	return a
}

// GiantCase: one scaling to a target far too large to read completely (Scale is lazy: nothing is allocated); the
// error/no-error decision, the bounds, the accessors and a sparse set of pixels (corners, edges of the symbol area,
// block borders, a deterministic scatter) are compared with the pixel model.
type GiantCase struct {
	Pre    [2]int     `json:"pre,omitempty"` // non-zero: the source is first scaled to this (giant) size; the judged step scales that view
	Source EncSpec    `json:"source"`
	W      int        `json:"w"`
	H      int        `json:"h"`
	Fill   *ColorSpec `json:"fill,omitempty"`
}

func checkGiant(t TB, c GiantCase) {
	noteCase("C09", "scale-giant", c)
	const P, K = "C09", "scale-giant"
	src, err, pv := encodeSpec(c.Source)
	if pv != nil || err != nil || nilBarcode(src) {
		failf(t, P, K, c, "source not encodable: %v %v", err, pv)
	}
	if c.Pre[0] > 0 {
		var perr error
		if ppv := try(func() { src, perr = barcode.Scale(src, c.Pre[0], c.Pre[1]) }); ppv != nil || perr != nil || nilBarcode(src) {
			failf(t, P, K, c, "first scaling to %dx%d failed: %v %v", c.Pre[0], c.Pre[1], perr, ppv)
		}
	}
	W, H, dims := src.Bounds().Dx(), src.Bounds().Dy(), int(src.Metadata().Dimensions)
	var res barcode.Barcode
	var fill color.Color
	if pv := try(func() {
		if c.Fill == nil {
			res, err = barcode.Scale(src, c.W, c.H)
		} else {
			fill = c.Fill.Color()
			res, err = barcode.ScaleWithFill(src, c.W, c.H, fill)
		}
	}); pv != nil {
		failf(t, P, K, c, "Scale to %dx%d: %v", c.W, c.H, pv)
	}
	if c.Fill == nil {
		fill = color.White
		if bcCol, ok := src.(barcode.BarcodeColor); ok {
			fill = bcCol.ColorScheme().Background
		}
	}
	f := c.W / W
	if dims == 2 && c.H/H < f {
		f = c.H / H
	}
	if f < 1 {
		if err == nil || !nilBarcode(res) {
			failf(t, P, K, c, "scaling a %dx%d symbol to %dx%d must fail", W, H, c.W, c.H)
		}
		return
	}
	if err != nil || nilBarcode(res) {
		failf(t, P, K, c, "scaling a %dx%d %dD symbol to %dx%d failed although factor %d fits: %v", W, H, dims, c.W, c.H, f, err)
	}
	if rb := res.Bounds(); rb != image.Rect(0, 0, c.W, c.H) {
		failf(t, P, K, c, "result bounds %v, want (0,0)-(%d,%d)", rb, c.W, c.H)
	}
	if res.Content() != src.Content() || res.Metadata() != src.Metadata() {
		failf(t, P, K, c, "Content()/Metadata() of the result differ from the source's")
	}
	mx, my := c.W-W*f, c.H-H*f
	// sample coordinates: image corners, the borders of the symbol area for both admissible centrings, every block
	// border of the first and last modules, and a scatter
	xs := []int{0, 1, c.W - 1, c.W - 2, c.W / 2, mx / 2, mx/2 - 1, (mx + 1) / 2, (mx+1)/2 - 1, mx/2 + W*f, mx/2 + W*f - 1, (mx+1)/2 + W*f, (mx+1)/2 + W*f - 1}
	ys := []int{0, c.H - 1, c.H / 2, my / 2, my/2 - 1, (my + 1) / 2, my/2 + H*f, my/2 + H*f - 1, (my+1)/2 + H*f - 1}
	for k := 0; k < W && k < 40; k++ {
		m := k * (W - 1) / max(min(W, 40)-1, 1)
		xs = append(xs, mx/2+m*f, mx/2+m*f+f-1, (mx+1)/2+m*f+f/2)
	}
	for k := 0; k < H && k < 12; k++ {
		m := k * (H - 1) / max(min(H, 12)-1, 1)
		ys = append(ys, my/2+m*f, my/2+m*f+f-1)
	}
	x := uint64(c.W)*0x9E3779B97F4A7C15 ^ uint64(c.H)
	for k := 0; k < 60; k++ {
		x ^= x >> 29
		x *= 0xBF58476D1CE4E5B9
		x ^= x >> 32
		xs = append(xs, int(x%uint64(c.W)))
		ys = append(ys, int((x>>20)%uint64(c.H)))
	}
	matches := func(ox, oy int) string {
		for _, y := range ys {
			if y < 0 || y >= c.H {
				continue
			}
			for _, x := range xs {
				if x < 0 || x >= c.W {
					continue
				}
				want := fill
				inX := x >= ox && x < ox+W*f
				if dims == 1 && inX {
					want = src.At((x-ox)/f, 0)
				} else if dims == 2 && inX && y >= oy && y < oy+H*f {
					want = src.At((x-ox)/f, (y-oy)/f)
				}
				if got := res.At(x, y); got != want {
					return fmt.Sprintf("pixel (%d,%d) is %v, model (offset %d,%d factor %d) says %v", x, y, got, ox, oy, f, want)
				}
			}
		}
		return ""
	}
	first := ""
	var ppv any
	ok := false
	ppv = try(func() {
		oys := []int{my / 2, (my + 1) / 2}
		if dims == 1 {
			oys = []int{0}
		}
		for _, ox := range []int{mx / 2, (mx + 1) / 2} {
			for _, oy := range oys {
				msg := matches(ox, oy)
				if msg == "" {
					ok = true
					return
				}
				if first == "" {
					first = msg
				}
			}
		}
	})
	if ppv != nil {
		failf(t, P, K, c, "reading pixels of the %dx%d result: %v", c.W, c.H, ppv)
	}
	if !ok {
		failf(t, P, K, c, "%dx%d %dD source scaled to %dx%d: %s", W, H, dims, c.W, c.H, first)
	}
}

func init() { register("scale-giant", func(t TB, c GiantCase) { checkGiant(t, c) }) }

// TestC09Giant: "every requested width and height >= 1": poster- and banner-sized targets, targets beyond 2^31 and 2^32
// pixels, extreme aspect ratios, sizes one below / at / above integer multiples of the symbol.
func TestC09Giant(t *testing.T) {
	st := NewStats("C09", "giant")
	defer st.Flush()
	ct := &collectTB{}
	red := &ColorSpec{Model: "nrgba", V: [4]uint16{200, 10, 20, 128}}
	sources := []EncSpec{
		{Fam: "qr", Content: BStr("GIANT"), A: 1, B: 0}, {Fam: "datamatrix", Content: BStr("A")}, {Fam: "pdf417", Content: BStr("P"), A: 1},
		{Fam: "aztec", Content: BStr("Az"), A: 33}, {Fam: "ean", Content: BStr("5901234123457")}, {Fam: "code128", Content: BStr("ab")}, {Fam: "itf", Content: BStr("12")},
	}
	var cases []GiantCase
	for si, s := range sources {
		bc, err, pv := encodeSpec(s)
		if pv != nil || err != nil || nilBarcode(bc) {
			t.Fatalf("giant source %d not encodable: %v %v", si, err, pv)
		}
		W, H := bc.Bounds().Dx(), bc.Bounds().Dy()
		sizes := [][2]int{{46340, 46340}, {46341, 46341}, {65535, 65535}, {65536, 65536}, {65537, 65537}, {39732, 56173}, {141732, 20079}, {1 << 20, 1 << 12}, {1 << 12, 1 << 20},
			{1 << 24, 1 << 8}, {3000000, 700}, {W * 1000, H * 1000}, {W*1000 - 1, H*1000 + 7}, {W*4097 + 1, H * 4096}, {big(31, 0), max(H, 2)}, {big(31, 1), max(H, 3)}, {big(32, 5), max(H, 1)},
			{W - 1, 1 << 20}, {W, 1 << 22}, {100003, 100003}}
		for k, sz := range sizes {
			g := GiantCase{Source: s, W: sz[0], H: sz[1]}
			if (k+si)%3 == 0 {
				g.Fill = red
			}
			cases = append(cases, g)
		}
	}
	// giant SOURCES: the symbol first scaled to more than 10^9 pixels a side (a lazy view), then scaled again to one
	// pixel less / exactly / one pixel more than k times that size
	for si, s := range sources {
		bc, _, _ := encodeSpec(s)
		W, H := bc.Bounds().Dx(), bc.Bounds().Dy()
		pw, ph := W<<26, H<<26
		if bc.Metadata().Dimensions == 1 {
			ph = 3
		}
		for k, sz := range [][2]int{{pw - 1, ph}, {pw, ph}, {pw + 1, ph + 1}, {2*pw - 1, 2 * ph}, {2 * pw, 2 * ph}, {2*pw + 3, 2*ph + 1}, {pw, ph - 1}, {3*pw - 2, 3*ph + 5}} {
			g := GiantCase{Source: s, Pre: [2]int{pw, ph}, W: sz[0], H: sz[1]}
			if (k+si)%3 == 0 {
				g.Fill = red
			}
			cases = append(cases, g)
		}
	}
	// million-pixel 2D sources re-scaled to targets of 2^44..2^51 pixels a side: every single number is far below 2^53,
	// but the cross products width*sourceHeight that an implementation may use to pick the limiting axis exceed 2^63
	for si, s := range sources {
		bc, _, _ := encodeSpec(s)
		if bc.Metadata().Dimensions != 2 {
			continue
		}
		W, H := bc.Bounds().Dx(), bc.Bounds().Dy()
		for k, q := range [][4]int{{3000000, 2000000, big(45, 0), big(44, 0)}, {2000003, 3000001, big(44, 12345), big(45, 777)}, {3000000, 2000000, big(44, 0), big(45, 0)},
			{W << 20, H << 20, big(50, 0), big(50, 1)}, {W << 21, H << 20, big(49, 3), big(51, 0)}, {W << 20, H << 22, big(51, -1), big(48, 5)}, {2000000, 3000000, big(52, -7), big(43, 0)}} {
			g := GiantCase{Source: s, Pre: [2]int{q[0], q[1]}, W: q[2], H: q[3]}
			if (k+si)%4 == 0 {
				g.Fill = red
			}
			cases = append(cases, g)
		}
	}
	parallelFor(len(cases), 16, func(i int) {
		if ct.Failed() {
			return
		}
		ct.guard(func() {
			checkGiant(ct, cases[i])
			st.Eval()
			st.NonTrivial(H(fmt.Sprintf("%+v", cases[i])))
			if int64(cases[i].W)*int64(cases[i].H) > 1<<31 {
				st.Class("target of more than 2^31 pixels (sampled)")
			} else {
				st.Class("giant target (sampled)")
			}
		})
	})
	// "white if it exposes no colour scheme": literally white, also when the application has replaced the library's
	// exported default scheme (this test function runs alone in its process; the variable is restored)
	if !ct.Failed() {
		ct.guard(func() {
			src, _, _ := encodeSpec(EncSpec{Fam: "ean", Content: BStr("5901234123457")})
			W := src.Bounds().Dx()
			saved := barcode.ColorScheme16
			barcode.ColorScheme16 = barcode.ColorScheme{Model: color.Gray16Model, Background: color.Gray16{Y: 0x1111}, Foreground: color.Gray16{Y: 0xeeee}}
			defer func() { barcode.ColorScheme16 = saved }()
			s1, err1 := barcode.Scale(src, W+10, 4)
			if err1 != nil {
				failf(ct, "C09", "scale-giant", GiantCase{}, "Scale: %v", err1)
			}
			if _, exposes := s1.(barcode.BarcodeColor); !exposes {
				s2, err2 := barcode.Scale(s1, W+40, 4)
				if err2 != nil {
					failf(ct, "C09", "scale-giant", GiantCase{}, "Scale of a scaled barcode: %v", err2)
				}
				for _, x := range []int{0, 1, 7, W + 39, W + 33} {
					if px := s2.At(x, 2); px != color.White {
						failf(ct, "C09", "scale-giant", GiantCase{Source: EncSpec{Fam: "ean", Content: BStr("5901234123457")}, Pre: [2]int{W + 10, 4}, W: W + 40, H: 4},
							"a source that exposes no colour scheme was scaled while the application's barcode.ColorScheme16 is a dark scheme: margin pixel (%d,2) is %v, the default fill for such a source is white", x, px)
					}
				}
			}
			st.Eval()
			st.Class("default fill of a scheme-less source while barcode.ColorScheme16 is reassigned")
		})
	}
	st.Sample("giant", cases[1])
	if ct.Failed() {
		t.Fatalf("%s", ct.first)
	}
}
