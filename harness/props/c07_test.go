package props

// C07: Code 39 / Code 93 decode to the given text in every option mix.

import (
	"fmt"
	"strings"
	"testing"

	"github.com/boombuler/barcode"
	"github.com/boombuler/barcode/code39"
	"github.com/boombuler/barcode/code93"
	"pgregory.net/rapid"
	"verif/ref"
)

type C39Case struct {
	Sym       int  `json:"sym"` // 39 or 93
	Content   BStr `json:"content"`
	Checksum  bool `json:"checksum"`
	FullASCII bool `json:"full_ascii"`
}

const basic43 = "0123456789ABCDEFGHIJKLMNOPQRSTUVWXYZ-. $/+%"

// c39Representable: 1 accept, 0 reject, -1 either (Code 93 basic mode with the shift placeholders).
func c39Representable(c C39Case) int {
	s := string(c.Content)
	if c.FullASCII {
		for _, r := range s {
			if r > 127 {
				return 0
			}
		}
		for i := 0; i < len(s); i++ {
			if s[i] > 127 {
				return 0 // invalid UTF-8 bytes decode to U+FFFD
			}
		}
		return 1
	}
	either := false
	for _, r := range s {
		if strings.ContainsRune(basic43, r) {
			continue
		}
		if c.Sym == 93 && r >= 0xF1 && r <= 0xF4 {
			either = true
			continue
		}
		return 0
	}
	if either {
		return -1
	}
	return 1
}

func encode39(c C39Case) (bc barcode.Barcode, err error, pv any) {
	pv = try(func() {
		if c.Sym == 39 {
			var b barcode.BarcodeIntCS
			b, err = code39.Encode(string(c.Content), c.Checksum, c.FullASCII)
			if b != nil {
				bc = b
			}
		} else {
			bc, err = code93.Encode(string(c.Content), c.Checksum, c.FullASCII)
		}
	})
	return
}

// checkC39 returns whether the input was accepted.
func checkC39(t TB, c C39Case) bool {
	noteCase("C07", "code39-93", c)
	const P, K = "C07", "code39-93"
	bc, err, pv := encode39(c)
	if pv != nil {
		failf(t, P, K, c, "%v", pv)
	}
	rep := c39Representable(c)
	if err != nil || nilBarcode(bc) {
		if rep == 1 {
			failf(t, P, K, c, "representable text rejected: %v", err)
		}
		return false
	}
	if rep == 0 {
		failf(t, P, K, c, "text outside the alphabet accepted")
	}
	disturb(fmt.Sprintf("code%d", c.Sym))
	m, merr := modules1D(bc)
	if merr != nil {
		failf(t, P, K, c, "%v", merr)
	}
	text := string(c.Content)
	colourVariant(t, P, K, c, EncSpec{Fam: fmt.Sprintf("code%d", c.Sym), Content: c.Content, F1: c.Checksum, F2: c.FullASCII}, [][]bool{m})
	if c.Sym == 39 {
		raw, derr := ref.DecodeCode39Raw(m)
		if derr != nil {
			failf(t, P, K, c, "reference decoder: %v", derr)
		}
		data := raw
		if c.Checksum {
			if len(raw) < 1 {
				failf(t, P, K, c, "check character requested but the symbol has no data characters")
			}
			data = raw[:len(raw)-1]
			want := ref.Code39Check(data)
			if got := ref.Code39Value(raw[len(raw)-1]); got != want {
				failf(t, P, K, c, "check character %q has value %d, modulo-43 sum of %q is %d", raw[len(raw)-1], got, data, want)
			}
		}
		decoded := data
		if c.FullASCII {
			var e error
			decoded, e = ref.FullASCIIDecode([]rune(data), '$', '%', '/', '+')
			if e != nil {
				failf(t, P, K, c, "full-ASCII resolution of %q: %v", data, e)
			}
		}
		if decoded != text {
			failf(t, P, K, c, "symbol characters %q (check requested=%v) decode to %q", raw, c.Checksum, decoded)
		}
		return true
	}
	vals, derr := ref.DecodeCode93Raw(m)
	if derr != nil {
		failf(t, P, K, c, "reference decoder: %v", derr)
	}
	data := vals
	if c.Checksum {
		if len(vals) < 2 {
			failf(t, P, K, c, "check characters requested but only %d characters between start and stop", len(vals))
		}
		data = vals[:len(vals)-2]
		cc, kk := vals[len(vals)-2], vals[len(vals)-1]
		if want := ref.Code93Check(data, 20); cc != want {
			failf(t, P, K, c, "check character C is %d, want %d", cc, want)
		}
		if want := ref.Code93Check(vals[:len(vals)-1], 15); kk != want {
			failf(t, P, K, c, "check character K is %d, want %d", kk, want)
		}
	}
	r := make([]rune, len(data))
	for i, v := range data {
		r[i] = ref.Code93Chars[v]
	}
	decoded := string(r)
	if c.FullASCII {
		var e error
		decoded, e = ref.FullASCIIDecode(r, 0xF1, 0xF2, 0xF3, 0xF4)
		if e != nil {
			failf(t, P, K, c, "full-ASCII resolution of %q: %v", string(r), e)
		}
	}
	if decoded != text {
		all := make([]rune, len(vals))
		for i, v := range vals {
			all[i] = ref.Code93Chars[v]
		}
		failf(t, P, K, c, "symbol characters %q (check characters requested=%v) decode to %q", string(all), c.Checksum, decoded)
	}
	return true
}

func init() { register("code39-93", func(t TB, c C39Case) { checkC39(t, c) }) }

func c07Account(st *Stats, c C39Case, ok bool) {
	if !ok {
		st.Class("rejected")
		return
	}
	st.Class(fmt.Sprintf("accepted code%d checksum=%v fullASCII=%v", c.Sym, c.Checksum, c.FullASCII))
	if len(c.Content) >= 1 {
		st.NonTrivial(H(c.Sym, c.Checksum, c.FullASCII, c.Content))
	}
	for _, b := range c.Content {
		if b < 128 {
			st.Cover(fmt.Sprintf("chars code%d fullASCII=%v", c.Sym, c.FullASCII), fmt.Sprint(b))
		}
	}
}

func genC39(t *rapid.T) C39Case {
	c := C39Case{Sym: rapid.SampledFrom([]int{39, 93}).Draw(t, "sym"), Checksum: rapid.Bool().Draw(t, "checksum"), FullASCII: rapid.Bool().Draw(t, "full")}
	n := rapid.IntRange(0, 60).Draw(t, "len")
	if rapid.IntRange(0, 3).Draw(t, "short") == 0 {
		n = rapid.IntRange(0, 6).Draw(t, "shortlen")
	}
	if rapid.IntRange(0, 15).Draw(t, "long") == 0 {
		n = rapid.IntRange(290, 520).Draw(t, "longlen") // symbols wider than 4096 modules
	}
	b := make([]byte, 0, n)
	for i := 0; i < n; i++ {
		if c.FullASCII {
			b = append(b, byte(rapid.IntRange(0, 127).Draw(t, "a")))
		} else {
			b = append(b, basic43[rapid.IntRange(0, 42).Draw(t, "b")])
		}
	}
	s := string(b)
	switch rapid.IntRange(0, 29).Draw(t, "invalid") {
	case 0:
		s += "*"
	case 1:
		s += "a"
	case 2:
		s += string(rune(rapid.SampledFrom([]int{0x80, 0xE9, 0xF0, 0xF5, 0x20AC}).Draw(t, "hi")))
	case 3:
		s += "\xff"
	case 4:
		s += rapid.SampledFrom([]string{"#", "&", "@", "_", "\x00", "\x7f"}).Draw(t, "p")
	case 5: // alias rune (low byte is a valid character) or a digit of another script, anywhere
		r := aliasRune(basic43[rapid.IntRange(0, 42).Draw(t, "ac")], rapid.IntRange(0, 199).Draw(t, "ak"))
		if rapid.Bool().Draw(t, "nd") {
			r = rapid.SampledFrom(nonASCIIDigits).Draw(t, "ndr")
		}
		p := 0
		if len(s) > 0 {
			p = rapid.IntRange(0, len(s)).Draw(t, "ap")
		}
		s = s[:p] + string(r) + s[p:]
	}
	c.Content = BStr(s)
	return c
}

func TestC07Rapid(t *testing.T) {
	foreignWarmup("code39", "code93")
	st := NewStats("C07", "rapid")
	runRapid(t, st, func(rt *rapid.T) {
		c := genC39(rt)
		ok := checkC39(rt, c)
		c07Account(st, c, ok)
		if len(c.Content) <= 5 {
			st.Sample(fmt.Sprintf("code%d cs=%v full=%v ok=%v", c.Sym, c.Checksum, c.FullASCII, ok), c)
		}
	})
}

// TestC07Exhaustive: all strings of length 0..2 (thorough: basic alphabet also length 3) in all
// option mixes for both symbologies.
func TestC07Exhaustive(t *testing.T) {
	st := NewStats("C07", "exhaustive")
	defer st.Flush()
	ct := &collectTB{}
	var ascii []byte
	for i := 0; i < 128; i++ {
		ascii = append(ascii, byte(i))
	}
	run := func(s string, full bool) {
		for _, sym := range []int{39, 93} {
			for _, cs := range []bool{false, true} {
				c := C39Case{Sym: sym, Content: BStr(s), Checksum: cs, FullASCII: full}
				ok := checkC39(ct, c)
				st.Eval()
				c07Account(st, c, ok)
			}
		}
	}
	ct.guard(func() {
		run("", false)
		run("", true)
	})
	parallelFor(128, 16, func(i int) {
		if ct.Failed() {
			return
		}
		ct.guard(func() {
			run(string(ascii[i:i+1]), true)
			run(string(ascii[i:i+1]), false) // includes the characters that must be rejected in basic mode
			for j := 0; j < 128; j++ {
				s := string([]byte{ascii[i], ascii[j]})
				run(s, true)
				if strings.IndexByte(basic43, ascii[i]) >= 0 && strings.IndexByte(basic43, ascii[j]) >= 0 {
					run(s, false)
					if thorough() {
						for k := 0; k < 43; k++ {
							run(s+basic43[k:k+1], false)
						}
					}
				}
			}
		})
	})
	st.Sample("exhaustive", C39Case{Sym: 93, Content: BStr("a~"), Checksum: true, FullASCII: true})
	st.Set("exhaustive", true)
	st.Set("exhaustive_domain", "all ASCII strings of length 0..2 in full-ASCII mode, all basic-alphabet strings of length 0..2 (thorough: 0..3) and all single ASCII characters in basic mode, x includeChecksum x both symbologies")
	if ct.Failed() {
		t.Fatalf("%s", ct.first)
	}
}

// TestC07Long: "for every text": there is no length limit in either symbology. Very long texts of high-valued
// characters (sums and weighted sums far beyond 16 bits, symbols of several hundred thousand modules).
const longMixAlphabet = "ABCDEFGHIJ0123456789-. abcdefghijklmnopqrstuvwxyz!#&()=?@[]{}~\x01\x7f"

func TestC07Long(t *testing.T) {
	st := NewStats("C07", "long")
	defer st.Flush()
	ct := &collectTB{}
	var cases []C39Case
	for _, n := range []int{4000, 30000, 70000} {
		for _, sym := range []int{39, 93} {
			for _, unit := range []string{"%+/$", "Z%", "-. $/+%"} {
				c := strings.Repeat(unit, n/len(unit))
				cases = append(cases, C39Case{Sym: sym, Content: BStr(c), Checksum: true}, C39Case{Sym: sym, Content: BStr(c), Checksum: n == 30000, FullASCII: true})
			}
			cases = append(cases, C39Case{Sym: sym, Content: BStr(strings.Repeat("~z", n/2)), Checksum: true, FullASCII: true})
			if n == 70000 { // one character more often than a 16-bit counter can count
				cases = append(cases, C39Case{Sym: sym, Content: BStr(strings.Repeat("A", n)), Checksum: true}, C39Case{Sym: sym, Content: BStr(strings.Repeat("Z", 66000) + "-1"), Checksum: true})
			}
		}
	}
	for seed := 0; seed < 4; seed++ { // long full-ASCII texts mixing plain and shifted characters at every offset
		b := fillPattern(3, int64(seed+41), 30000+seed*777)
		for i := range b {
			b[i] = longMixAlphabet[int(b[i])%len(longMixAlphabet)]
		}
		cases = append(cases, C39Case{Sym: 93, Content: BStr(b), Checksum: seed%2 == 0, FullASCII: true}, C39Case{Sym: 39, Content: BStr(b), Checksum: seed%2 == 1, FullASCII: true})
	}
	if thorough() { // weighted sums beyond 2^31
		for _, sym := range []int{39, 93} {
			cases = append(cases, C39Case{Sym: sym, Content: BStr(strings.Repeat("%+/$Z-", 8000000/6)), Checksum: true})
		}
	}
	parallelFor(len(cases), 16, func(i int) {
		if ct.Failed() {
			return
		}
		ct.guard(func() {
			ok := checkC39(ct, cases[i])
			st.Eval()
			c07Account(st, cases[i], ok)
			st.Class(fmt.Sprintf("text of %d characters", len(cases[i].Content)))
		})
	})
	st.Sample("long", map[string]any{"lengths": []int{4000, 30000, 70000}, "units": []string{"%+/$", "Z%", "-. $/+%", "~z"}})
	if ct.Failed() {
		t.Fatalf("%s", ct.first)
	}
}
