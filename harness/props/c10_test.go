package props

// C10: every entry point is total, panic-free and accepts exactly the representable inputs.

import (
	"bytes"
	"context"
	"fmt"
	"os/exec"
	"strconv"
	"strings"
	"testing"
	"time"
	"unicode/utf8"

	"github.com/boombuler/barcode"
	"github.com/boombuler/barcode/twooffive"
	"pgregory.net/rapid"
	"verif/ref"
)

type verdict int

const (
	mustReject verdict = iota
	mustAccept
	either
)

func (v verdict) String() string { return [...]string{"MUST_REJECT", "MUST_ACCEPT", "EITHER"}[v] }

const watchdog = 60 * time.Second

// withWatchdog runs fn on its own goroutine and reports whether it returned in time.
func withWatchdog(fn func()) bool { return withWatchdogFor(watchdog, fn) }

func withWatchdogFor(d time.Duration, fn func()) bool {
	done := make(chan struct{})
	go func() {
		defer close(done)
		fn()
	}()
	select {
	case <-done:
		return true
	case <-time.After(d):
		return false
	}
}

func homogeneous(b []byte, pred func(byte) bool) bool {
	for _, c := range b {
		if !pred(c) {
			return false
		}
	}
	return len(b) > 0
}

// aztecBitBounds: (lo, hi) bounds of the number of high-level bits any conforming encoder needs / this
// kind of encoder may need for the payload; exact (lo == hi) for homogeneous payloads.
func aztecBitBounds(p []byte) (lo, hi int) {
	n := len(p)
	switch {
	case homogeneous(p, func(c byte) bool { return c == ' ' || (c >= 'A' && c <= 'Z') }):
		return 5 * n, 5 * n
	case homogeneous(p, func(c byte) bool { return c >= '0' && c <= '9' }):
		return 5 + 4*n, 5 + 4*n
	case homogeneous(p, func(c byte) bool { return c == ' ' || (c >= 'a' && c <= 'z') }):
		return 5 + 5*n, 5 + 5*n // L/L, then 5 bits each
	case aztecPairsOnly(p):
		// the two-character PUNCT codes (CR LF, ". ", ", ", ": "): 5 bits per pair after M/L P/L (10 bits),
		// or P/S + code (10 bits) per pair: the densest text there is (2.5 bits per byte)
		m := n / 2
		return min(10*m, 10+5*m), min(10*m, 10+5*m)
	case homogeneous(p, func(c byte) bool { return c >= 128 }):
		var b int
		switch {
		case n <= 31:
			b = 10 + 8*n
		case n <= 62:
			b = 20 + 8*n
		default:
			b = 8 * n
			for left := n; left > 0; left -= 2078 {
				b += 21
			}
		}
		return b, b
	}
	return (5*n + 1) / 2, 10*n + 32
}

func aztecPairsOnly(p []byte) bool {
	if len(p) == 0 || len(p)%2 != 0 {
		return false
	}
	for i := 0; i < len(p); i += 2 {
		switch string(p[i : i+2]) {
		case "\r\n", ". ", ", ", ": ":
		default:
			return false
		}
	}
	return true
}

func aztecVerdict(p []byte, pct, layers int) verdict {
	if !aztecLayersValid(layers) {
		return mustReject
	}
	if len(p) == 0 || pct < 0 {
		return either
	}
	lo, hi := aztecBitBounds(p)
	type size struct {
		compact bool
		l       int
	}
	var sizes []size
	if layers == 0 {
		for l := 1; l <= 4; l++ {
			sizes = append(sizes, size{true, l})
		}
		for l := 1; l <= 32; l++ {
			sizes = append(sizes, size{false, l})
		}
	} else if layers < 0 {
		sizes = []size{{true, -layers}}
	} else {
		sizes = []size{{false, layers}}
	}
	anySure, allImpossible := false, true
	for _, s := range sizes {
		w := ref.AztecWordSize(s.l)
		total := ref.AztecTotalBits(s.compact, s.l)
		usable := total - total%w
		stuffedMax := (hi + w - 2) / (w - 1) * w
		if stuffedMax+hi*pct/100+11 <= usable-2*w && (!s.compact || stuffedMax <= 64*w) {
			anySure = true
		}
		impossible := lo*(100+pct) > total*100 || (s.compact && lo > 64*w)
		if !impossible {
			allImpossible = false
		}
	}
	switch {
	case anySure:
		return mustAccept
	case allImpossible:
		return mustReject
	}
	return either
}

// pdfCodewordBounds: bounds of the number of data codewords (without descriptor and check words).
func pdfCodewordBounds(p []byte) (lo, hi int) {
	n := len(p)
	if n == 0 {
		return 0, 0
	}
	switch {
	case homogeneous(p, func(c byte) bool { return c >= '0' && c <= '9' }):
		m := 1 + n/44*15
		if r := n % 44; r > 0 {
			m += r/3 + 1
		}
		return m, m
	case homogeneous(p, func(c byte) bool { return c == ' ' || (c >= 'A' && c <= 'Z') }):
		return (n + 1) / 2, (n + 1) / 2
	case homogeneous(p, func(c byte) bool { return c == ' ' || (c >= 'a' && c <= 'z') }):
		return (n + 2) / 2, (n + 2) / 2 // one latch value (27) to the lower sub-mode, then one value each
	case pdfTextThenDigits(p) > 0:
		// at least five upper-case characters (a text segment of its own), then a run of at least 13 digits (numeric
		// compaction after the 902 latch): the commonest shape of real content ("LOT 1234567890123")
		k := pdfTextThenDigits(p)
		d := n - k
		m := (k+1)/2 + 1 + d/44*15
		if r := d % 44; r > 0 {
			m += r/3 + 1
		}
		return m, m
	case homogeneous(p, func(c byte) bool { return c >= 128 }) && !utf8.Valid(p) && allInvalid(p):
		if n == 1 {
			return 2, 2
		}
		m := 1 + n/6*5 + n%6
		return m, m
	}
	return (n*15 + 43) / 44, 2*n + 4
}

// pdfTextThenDigits returns k if p is k >= 5 upper-case letters/blanks followed by at least 13 digits and nothing else, else 0.
func pdfTextThenDigits(p []byte) int {
	k := 0
	for k < len(p) && (p[k] == ' ' || (p[k] >= 'A' && p[k] <= 'Z')) {
		k++
	}
	if k < 5 || len(p)-k < 13 {
		return 0
	}
	for _, c := range p[k:] {
		if c < '0' || c > '9' {
			return 0
		}
	}
	return k
}

// allInvalid: every byte is an invalid UTF-8 sequence on its own (so that rune- and byte-wise
// scans of the content agree).
func allInvalid(p []byte) bool {
	for i := 0; i < len(p); {
		r, size := utf8.DecodeRune(p[i:])
		if r != utf8.RuneError || size != 1 {
			return false
		}
		i++
	}
	return true
}

func pdfVerdict(p []byte, level int) verdict {
	if level >= 9 {
		return mustReject
	}
	k := 2 << uint(level)
	lo, hi := pdfCodewordBounds(p)
	switch {
	case hi+1+k <= 900:
		return mustAccept
	case lo+1+k > 928:
		return mustReject
	}
	return either
}

// expectedVerdict is the three-valued representability oracle of DESIGN.md appendix A.
func expectedVerdict(s EncSpec) verdict {
	b := []byte(s.Content)
	str := string(s.Content)
	switch s.Fam {
	case "qr":
		if s.A < 0 || s.A > 3 || s.B < 0 || s.B > 3 {
			return either // not a defined constant: outside the property's domain
		}
		if qrExpectedMinVersion(QRCase{Content: s.Content, Level: s.A, Mode: s.B}) != 0 {
			return mustAccept
		}
		if s.B == 0 && len(b) > 0 {
			// Auto: too long for the densest single mode. A QR symbol may mix modes, so the content can still be
			// representable; this library's Auto is single-mode (C13 says so) and rejects, an encoder that mixes modes
			// may accept. Only beyond the bound of an ideal mixture (digits 10/3, alphanumerics 5.5, bytes 8 bits, no
			// headers) is rejection required.
			d, a, o := 0, 0, 0
			for _, ch := range b {
				switch {
				case ch >= '0' && ch <= '9':
					d++
				case qrInAlphabet(2, []byte{ch}):
					a++
				default:
					o++
				}
			}
			classes := 0
			for _, k := range []int{d, a, o} {
				if k > 0 {
					classes++
				}
			}
			if classes >= 2 && (10*d+2)/3+(11*a+1)/2+8*o+12 <= 8*ref.QRDataCodewords(40, s.A) {
				return either
			}
		}
		return mustReject
	case "datamatrix":
		if ref.DMAsciiCodewords(b) <= 1558 {
			return mustAccept
		}
		return mustReject
	case "aztec":
		return aztecVerdict(b, s.A, s.B)
	case "pdf417":
		return pdfVerdict(b, s.A)
	case "code128", "code128nc":
		if code128Representable(str) {
			return mustAccept
		}
		return mustReject
	case "code39", "code93":
		sym := 39
		if s.Fam == "code93" {
			sym = 93
		}
		switch c39Representable(C39Case{Sym: sym, Content: s.Content, Checksum: s.F1, FullASCII: s.F2}) {
		case 1:
			return mustAccept
		case 0:
			return mustReject
		}
		return either
	case "codabar":
		if codabarRule.MatchString(str) {
			return mustAccept
		}
		return mustReject
	case "ean":
		if eanExpected(str) != "" {
			return mustAccept
		}
		return mustReject
	case "2of5":
		if len(str) > 0 && allDigits(str) {
			return mustAccept
		}
		return mustReject
	case "itf":
		if len(str) > 0 && allDigits(str) && len(str)%2 == 0 {
			return mustAccept
		}
		return mustReject
	case "addchecksum":
		if len(str) > 0 && allDigits(str) {
			return mustAccept
		}
		return mustReject
	}
	return either
}

// checkC10 returns (accepted, verdict).
func checkC10(t TB, st *Stats, s EncSpec) (bool, verdict) {
	noteCase("C10", "total-exact-acceptance", s)
	const P, K = "C10", "total-exact-acceptance"
	want := expectedVerdict(s)
	if s.Fam == "aztec" && len(s.Content) == 0 && knownFinding("C03", "F11-aztec-empty-payload") && st != nil {
		st.Excluded("F11-aztec-empty-payload (C03): acceptance of the empty payload not judged")
	}
	var bc barcode.Barcode
	var err error
	var pv any
	var out string
	returned := withWatchdog(func() {
		if s.Fam == "addchecksum" {
			pv = try(func() { out, err = twooffive.AddCheckSum(string(s.Content)) })
		} else {
			bc, err, pv = encodeSpec(s)
		}
	})
	if !returned {
		failf(t, P, K, s, "call did not return within %v", watchdog)
	}
	if pv != nil {
		failf(t, P, K, s, "%v", pv)
	}
	var accepted bool
	if s.Fam == "addchecksum" {
		accepted = err == nil
		if accepted == (out == "") {
			failf(t, P, K, s, "AddCheckSum returned (%q, %v): not exactly one of result and error", out, err)
		}
	} else {
		isNil := nilBarcode(bc)
		if isNil == (err == nil) {
			failf(t, P, K, s, "returned barcode nil=%v together with error %v: not exactly one of barcode and error", isNil, err)
		}
		if err != nil && bc != nil {
			// a nil pointer wrapped in a non-nil interface: callers testing `bc != nil` see a barcode, using it panics
			failf(t, P, K, s, "an error (%v) was returned together with a barcode interface that is != nil (it wraps a nil %T)", err, bc)
		}
		accepted = err == nil
	}
	switch {
	case want == mustAccept && !accepted:
		failf(t, P, K, s, "representable input rejected: %v", err)
	case want == mustReject && accepted:
		failf(t, P, K, s, "unrepresentable input accepted")
	}
	return accepted, want
}

func init() {
	register("total-exact-acceptance", func(t TB, s EncSpec) { checkC10(t, nil, s) })
}

var hostileStrings = []string{
	"", "\x00", " ", "0", "00", "+12", "-0", "+0", "-12", "12+", "1e3", "0x1", "1_0", "١٢٣", "１２３", "*", "**", "*A*", "A", "AA", "a", "!", "ñ", "òóô", "õ", "ð",
	"\x7f", "\u0080", "\xff", "\xc3", "\xc3\x28", "\xf1", "é", "€", "😀", "A1B", "A", "AB", "B1A\n", "a1b", "A1BA1B", "A1E", "E1A", "A1T", "T1N", "*1*", "A1", "1A", "A12e", "1234567", "12345670", "12345678", "123456B", "123456BB",
	"1234567F", "123456789012", "1234567890128", "1234567890123", "12", "123", "12é", "é", "\n", "\r\n", ". ", ", ", ": ", "\"", "'", "AA1;;\x80;;;;;;", "FOOBAR", "invalid",
	strings.Repeat("1", 80), strings.Repeat("1", 81), strings.Repeat("a", 80), strings.Repeat("a", 81), strings.Repeat("ñ", 80), strings.Repeat("ñ", 81),
}

func genC10Spec(t *rapid.T) EncSpec {
	fam := rapid.SampledFrom(append(append([]string{}, allFamilies...), "addchecksum")).Draw(t, "fam")
	var s EncSpec
	switch rapid.IntRange(0, 9).Draw(t, "how") {
	case 0, 1: // hostile constants with arbitrary parameters
		s = EncSpec{Fam: fam, Content: BStr(rapid.SampledFrom(hostileStrings).Draw(t, "hostile"))}
	case 2: // arbitrary bytes
		n := rapid.IntRange(0, 40).Draw(t, "n")
		b := make([]byte, n)
		for i := range b {
			b[i] = rapid.Byte().Draw(t, "b")
		}
		s = EncSpec{Fam: fam, Content: BStr(b)}
	case 3: // valid content with one boundary character spliced in
		if fam == "addchecksum" {
			fam = "2of5"
		}
		s = genEncSpecFam(t, fam, 1)
		r := rapid.SampledFrom([]string{"\x7f", "\u0080", "ð", "ñ", "ô", "õ", "*", "+", "-", " ", "a", "\x00", "\xff", "B", "F"}).Draw(t, "bc")
		switch rapid.IntRange(0, 3).Draw(t, "bck") {
		case 0: // a rune whose low byte is a character of the symbology's alphabet
			r = string(aliasRune(rapid.SampledFrom([]byte("0123456789ABCDZ $%*+-./:az")).Draw(t, "ac"), rapid.IntRange(0, 199).Draw(t, "ak")))
		case 1:
			r = string(rapid.SampledFrom(nonASCIIDigits).Draw(t, "nd"))
		}
		p := 0
		if len(s.Content) > 0 {
			p = rapid.IntRange(0, len(s.Content)).Draw(t, "pos")
		}
		s.Content = BStr(string(s.Content[:p]) + r + string(s.Content[p:]))
	default:
		if fam == "addchecksum" {
			c := genC08(t)
			s = EncSpec{Fam: fam, Content: c.Content}
		} else {
			s = genEncSpecFam(t, fam, rapid.SampledFrom([]int{0, 1, 2, 2}).Draw(t, "size"))
		}
	}
	s.Fam = fam
	// parameters over their whole domains
	switch fam {
	case "qr":
		if s.A < 0 || s.A > 3 || rapid.Bool().Draw(t, "relevel") {
			s.A = rapid.IntRange(0, 3).Draw(t, "level")
		}
		if s.B < 0 || s.B > 3 || rapid.Bool().Draw(t, "remode") {
			s.B = rapid.IntRange(0, 3).Draw(t, "mode")
		}
	case "pdf417":
		switch rapid.IntRange(0, 5).Draw(t, "lk") {
		case 0:
			s.A = rapid.IntRange(0, 255).Draw(t, "levelbyte")
		case 1:
			s.A = rapid.SampledFrom([]int{8, 9, 10, 255}).Draw(t, "leveledge")
		default:
			if s.A < 0 || s.A > 8 {
				s.A = rapid.IntRange(0, 8).Draw(t, "level")
			}
		}
	case "aztec":
		switch rapid.IntRange(0, 5).Draw(t, "ak") {
		case 0:
			s.B = rapid.IntRange(-40, 40).Draw(t, "layers")
			s.A = rapid.IntRange(0, 400).Draw(t, "ecc")
		case 1:
			s.B = rapid.SampledFrom([]int{-5, -4, -1, 1, 32, 33}).Draw(t, "layeredge")
		}
		if s.A < 0 {
			s.A = 0
		}
	case "code39", "code93":
		if rapid.Bool().Draw(t, "reflags") {
			s.F1, s.F2 = rapid.Bool().Draw(t, "f1"), rapid.Bool().Draw(t, "f2")
		}
	}
	if rapid.IntRange(0, 3).Draw(t, "coloured") == 0 && fam != "addchecksum" {
		s.Scheme = genScheme(t)
	}
	return s
}

func c10Hash(s EncSpec) uint64 {
	return H(s.Fam, s.A, s.B, s.F1, s.F2, s.Scheme != nil, s.Content)
}

func c10Account(st *Stats, s EncSpec, accepted bool, v verdict, boundary bool) {
	acc := "rejected"
	if accepted {
		acc = "accepted"
	}
	st.Class(fmt.Sprintf("%s %s (%s)", s.Fam, acc, v))
	st.Cover("entry_points", s.Label())
	if boundary || !accepted {
		st.NonTrivial(c10Hash(s))
	}
}

func hasBoundaryChar(b []byte) bool {
	for _, r := range string(b) {
		if r == 0x7f || r == 0x80 || (r >= 0xF0 && r <= 0xF5) || r == '*' || r == '+' || r == '-' || r == utf8.RuneError {
			return true
		}
	}
	return false
}

func TestC10Rapid(t *testing.T) {
	st := NewStats("C10", "rapid")
	runRapid(t, st, func(rt *rapid.T) {
		s := genC10Spec(rt)
		acc, v := checkC10(rt, st, s)
		c10Account(st, s, acc, v, hasBoundaryChar(s.Content))
		if len(s.Content) < 10 {
			st.Sample(fmt.Sprintf("%s %v %s", s.Fam, acc, v), s)
		}
	})
}

// TestC10Boundaries: capacity and capacity+1 of every symbology/version/level/mode with homogeneous
// content, every single byte value and every hostile constant at every entry point and parameter value.
func TestC10Boundaries(t *testing.T) {
	st := NewStats("C10", "boundaries")
	defer st.Flush()
	ct := &collectTB{}
	var cases []EncSpec
	add := func(s EncSpec) { cases = append(cases, s) }
	// QR: capacity and capacity+1 of every version/level/mode (+ Auto)
	for v := 1; v <= 40; v++ {
		for l := 0; l < 4; l++ {
			for mode := 1; mode <= 3; mode++ {
				n := qrCapacity(v, l, qrIndicator[mode])
				for _, k := range []int{n, n + 1} {
					c := fillPattern(mode, int64(v+l), k)
					if mode == 3 && k > 0 {
						c[0] = 0x80
					}
					if mode == 2 && k > 0 {
						c[0] = '$'
					}
					add(EncSpec{Fam: "qr", Content: BStr(c), A: l, B: mode})
					if v == 40 || v%13 == 0 {
						add(EncSpec{Fam: "qr", Content: BStr(c), A: l, B: 0})
					}
				}
			}
		}
	}
	// DataMatrix: every size boundary, 1558/1559 with three content shapes
	for _, sz := range ref.DMSizes {
		add(EncSpec{Fam: "datamatrix", Content: BStr(dmFit(nil, sz.Data, 'A'))})
		add(EncSpec{Fam: "datamatrix", Content: BStr(dmFit(nil, sz.Data+1, 'A'))})
	}
	for _, cw := range []int{1557, 1558, 1559, 1560} {
		add(EncSpec{Fam: "datamatrix", Content: BStr(dmFit(nil, cw, 0x90))})
		add(EncSpec{Fam: "datamatrix", Content: BStr(dmFit([]byte(strings.Repeat("12", cw-1)), cw, '7'))})
		add(EncSpec{Fam: "datamatrix", Content: BStr(dmFit([]byte(strings.Repeat("12", cw-1)), cw, 'x'))})
	}
	// Code 128: 79..82 runes of each class; Code 39/93, Codabar, EAN, 2 of 5: lengths 0, 1 and long
	for n := 79; n <= 82; n++ {
		for _, ch := range []string{"1", "a", "\x01", "ñ", "A"} {
			add(EncSpec{Fam: "code128", Content: BStr(strings.Repeat(ch, n))})
			add(EncSpec{Fam: "code128nc", Content: BStr(strings.Repeat(ch, n))})
		}
	}
	// PDF417: homogeneous contents around the 900-codeword capacity for every level
	for l := 0; l <= 10; l++ {
		k := 0
		if l <= 8 {
			k = 2 << uint(l)
		}
		budget := 900 - 1 - k // data codewords available
		// digits: 44 digits per 15 codewords after the 902 latch
		for _, d := range []int{-3, -2, -1, 0, 1, 2, 3} {
			n := (budget-1)/15*44 + d
			if n > 0 {
				add(EncSpec{Fam: "pdf417", Content: BStr(strings.Repeat("7", n)), A: l})
			}
			n = budget*2 + d
			if n > 0 {
				add(EncSpec{Fam: "pdf417", Content: BStr(strings.Repeat("Q", n)), A: l})
			}
			n = (budget-1)/5*6 + d
			if n > 0 {
				add(EncSpec{Fam: "pdf417", Content: BStr(strings.Repeat("\xfe", n)), A: l})
			}
		}
		// a short text segment followed by digits, sized to exactly the budget, one below and one above
		if l <= 8 {
			for _, k := range []int{5, 6, 7, 9, 12} {
				for _, want := range []int{budget, budget - 1, budget - 3, budget + 1} {
					for d := 13; d < 2750; d++ {
						m := (k+1)/2 + 1 + d/44*15
						if r := d % 44; r > 0 {
							m += r/3 + 1
						}
						if m == want {
							add(EncSpec{Fam: "pdf417", Content: BStr(strings.Repeat("ABCDEFGH LOT ", 1)[:k] + strings.Repeat("1234567890", d/10+1)[:d]), A: l})
							break
						}
					}
				}
			}
		}
		// every homogeneous class at 30..97% of the capacity (limits that are right for one class, wrong for another)
		if l <= 8 {
			for _, permille := range []int{300, 500, 650, 800, 900, 970} {
				b := budget * permille / 1000
				if b < 2 {
					continue
				}
				add(EncSpec{Fam: "pdf417", Content: BStr(strings.Repeat("7", (b-1)/15*44)), A: l})
				add(EncSpec{Fam: "pdf417", Content: BStr(strings.Repeat("Q", b*2)), A: l})
				add(EncSpec{Fam: "pdf417", Content: BStr(strings.Repeat("q", b*2-1)), A: l})
				add(EncSpec{Fam: "pdf417", Content: BStr(strings.Repeat("\xfe", (b-1)/5*6)), A: l})
			}
		}
		add(EncSpec{Fam: "pdf417", Content: BStr("x"), A: l})
		add(EncSpec{Fam: "pdf417", Content: BStr(""), A: l})
	}
	for _, l := range []int{9, 10, 100, 128, 255} {
		add(EncSpec{Fam: "pdf417", Content: BStr("level"), A: l})
	}
	// far beyond capacity (1.03x .. 4x) for every 2D symbology and every level: must fail cleanly
	for l := 0; l <= 8; l++ {
		for _, n := range []int{1850, 1900, 2000, 2400, 3600, 6000} {
			add(EncSpec{Fam: "pdf417", Content: BStr(strings.Repeat("A", n)), A: l})
			add(EncSpec{Fam: "pdf417", Content: BStr(strings.Repeat("7", n*3/2)), A: l})
			add(EncSpec{Fam: "pdf417", Content: BStr(strings.Repeat("\xc8", n*2/3)), A: l})
			add(EncSpec{Fam: "pdf417", Content: BStr(strings.Repeat("a;B\x01 ", n/5)), A: l})
		}
	}
	for _, n := range []int{1600, 2000, 3200, 6500} {
		add(EncSpec{Fam: "datamatrix", Content: BStr(strings.Repeat("Z", n))})
		add(EncSpec{Fam: "datamatrix", Content: BStr(strings.Repeat("\x99", n/2))})
		add(EncSpec{Fam: "datamatrix", Content: BStr(strings.Repeat("42", n))})
	}
	for l := 0; l < 4; l++ {
		for _, n := range []int{7100, 7500, 9000, 15000, 30000} {
			for mode := 0; mode < 4; mode++ {
				add(EncSpec{Fam: "qr", Content: BStr(strings.Repeat("8", n)), A: l, B: mode})
				add(EncSpec{Fam: "qr", Content: BStr(strings.Repeat("K", n*2/3)), A: l, B: mode})
				add(EncSpec{Fam: "qr", Content: BStr(strings.Repeat("\x81", n/2)), A: l, B: mode})
			}
		}
	}
	for _, n := range []int{2100, 2600, 4000, 9000} {
		for _, pct := range []int{0, 33, 100} {
			add(EncSpec{Fam: "aztec", Content: BStr(strings.Repeat("\x99", n)), A: pct})
			add(EncSpec{Fam: "aztec", Content: BStr(strings.Repeat("Q", n*2)), A: pct})
			add(EncSpec{Fam: "aztec", Content: BStr(strings.Repeat("7", n*2)), A: pct, B: 32})
		}
	}
	// lengths whose character / codeword count wraps a 16- or 17-bit counter back into the valid range: far beyond every
	// capacity, must fail cleanly
	for _, k := range []int{1 << 16, 1<<16 + 5, 1<<16 + 1000, 1 << 17, 1<<17 + 44} {
		add(EncSpec{Fam: "datamatrix", Content: BStr(strings.Repeat("A", k))})
		add(EncSpec{Fam: "datamatrix", Content: BStr(strings.Repeat("42", k))})
		add(EncSpec{Fam: "datamatrix", Content: BStr(strings.Repeat("\x99", k/2))})
		for _, l := range []int{0, 3} {
			add(EncSpec{Fam: "qr", Content: BStr(strings.Repeat("8", k)), A: l, B: 1})
			add(EncSpec{Fam: "qr", Content: BStr(strings.Repeat("8", k)), A: l, B: 0})
			add(EncSpec{Fam: "qr", Content: BStr(strings.Repeat("K", k)), A: l, B: 2})
			add(EncSpec{Fam: "qr", Content: BStr(strings.Repeat("\x81", k)), A: l, B: 3})
		}
		for _, l := range []int{0, 8} {
			add(EncSpec{Fam: "pdf417", Content: BStr(strings.Repeat("A", 2*k)), A: l})
			add(EncSpec{Fam: "pdf417", Content: BStr(strings.Repeat("7", k)), A: l})
			// (no byte contents of this length for PDF417: its byte compaction is quadratic in the input length - 48 s for
			// 65536 bytes on the unchanged tree - which is slow, not a hang; 8000 bytes are tried instead)
			add(EncSpec{Fam: "pdf417", Content: BStr(strings.Repeat("\xc8", 8000+k%7)), A: l})
		}
	}
	add(EncSpec{Fam: "aztec", Content: BStr(strings.Repeat("A", 1<<16+3)), A: 0})
	add(EncSpec{Fam: "aztec", Content: BStr(strings.Repeat("\x99", 1<<16+1)), A: 23, B: 32})
	// Aztec: layer range, homogeneous payloads around every size's capacity, huge percentages
	for l := -40; l <= 40; l++ {
		add(EncSpec{Fam: "aztec", Content: BStr("A"), A: 33, B: l})
		add(EncSpec{Fam: "aztec", Content: BStr("AZTEC 1234"), A: 0, B: l})
	}
	for l := -4; l <= 32; l++ {
		if l == 0 {
			continue
		}
		compact, n := l < 0, l
		if compact {
			n = -l
		}
		bits := ref.AztecTotalBits(compact, n)
		for _, pct := range []int{0, 23, 100} {
			for _, d := range []int{-12, -3, 0, 3, 12} {
				chars := bits*100/(100+pct)/5 + d
				if chars > 0 {
					add(EncSpec{Fam: "aztec", Content: BStr(strings.Repeat("Z", chars)), A: pct, B: l})
					add(EncSpec{Fam: "aztec", Content: BStr(strings.Repeat("Z", chars)), A: pct, B: 0})
				}
				bytesN := bits*100/(100+pct)/8 + d
				if bytesN > 0 {
					add(EncSpec{Fam: "aztec", Content: BStr(strings.Repeat("\x99", bytesN)), A: pct, B: l})
				}
			}
		}
	}
	// every homogeneous character class (incl. the densest one: two-character PUNCT codes, 2.5 bits per byte) at
	// 40..95% of the largest symbol's capacity: length limits that are right for one class and wrong for another
	for _, pct := range []int{0, 23} {
		bits := ref.AztecTotalBits(false, 32) * 100 / (100 + pct)
		for _, permille := range []int{400, 550, 700, 800, 850, 1100, 1500} {
			b := bits * permille / 1000
			for _, l := range []int{0, 32} {
				add(EncSpec{Fam: "aztec", Content: BStr(strings.Repeat(". ", (b-10)/5)), A: pct, B: l})
				add(EncSpec{Fam: "aztec", Content: BStr(strings.Repeat(", \r\n: . ", (b-10)/20)), A: pct, B: l})
				add(EncSpec{Fam: "aztec", Content: BStr(strings.Repeat("q", (b-5)/5)), A: pct, B: l})
				add(EncSpec{Fam: "aztec", Content: BStr(strings.Repeat("M", b/5)), A: pct, B: l})
				add(EncSpec{Fam: "aztec", Content: BStr(strings.Repeat("4", (b-5)/4)), A: pct, B: l})
				add(EncSpec{Fam: "aztec", Content: BStr(strings.Repeat("\xe9", (b-21-21*(b/8/2078))/8)), A: pct, B: l})
			}
		}
	}
	for _, pct := range []int{0, 1, 99, 100, 101, 399, 400, 10000} {
		add(EncSpec{Fam: "aztec", Content: BStr("PERCENT"), A: pct})
		add(EncSpec{Fam: "aztec", Content: BStr(strings.Repeat("8", 3000)), A: pct})
	}
	// every byte value and every hostile constant at every entry point
	fams := append(append([]string{}, allFamilies...), "addchecksum")
	for _, fam := range fams {
		variants := []EncSpec{{Fam: fam}}
		switch fam {
		case "qr":
			variants = nil
			for l := 0; l < 4; l++ {
				for m := 0; m < 4; m++ {
					variants = append(variants, EncSpec{Fam: fam, A: l, B: m})
				}
			}
		case "code39", "code93":
			variants = []EncSpec{{Fam: fam}, {Fam: fam, F1: true}, {Fam: fam, F2: true}, {Fam: fam, F1: true, F2: true}}
		case "aztec":
			variants = []EncSpec{{Fam: fam, A: 33}, {Fam: fam, A: 0, B: -1}, {Fam: fam, A: 100, B: 3}}
		case "pdf417":
			variants = []EncSpec{{Fam: fam, A: 0}, {Fam: fam, A: 8}}
		}
		for _, v := range variants {
			for b := 0; b < 256; b++ {
				s := v
				s.Content = BStr{byte(b)}
				add(s)
				s.Content = BStr{'A', byte(b), 'B'}
				add(s)
				s.Content = BStr{'1', '2', byte(b), '4'}
				add(s)
				// the same foreign byte twice, at pair starts and pair ends (parsers that look at characters in pairs)
				s.Content = BStr{byte(b), byte(b)}
				add(s)
				s.Content = BStr{byte(b), byte(b), '1', '2'}
				add(s)
				s.Content = BStr{'1', '2', byte(b), byte(b)}
				add(s)
				s.Content = BStr{byte(b), '1', '2', byte(b)}
				add(s)
			}
			for _, r := range []rune{0x7f, 0x80, 0xa0, 0xf0, 0xf1, 0xf2, 0xf3, 0xf4, 0xf5, 0xff, 0x100, 0xfffd, 0x10ffff} {
				s := v
				s.Content = BStr(string(r))
				add(s)
				s.Content = BStr("1" + string(r) + "2")
				add(s)
			}
			for _, h := range hostileStrings {
				s := v
				s.Content = BStr(h)
				add(s)
			}
			for i, nd := range nonASCIIDigits {
				s := v
				s.Content = BStr("1234567890123" + string(nd) + "4567890123456")
				add(s)
				s.Content = BStr("12345" + string(aliasRune(byte('0'+i%10), i)))
				add(s)
				s.Content = BStr("A" + string(aliasRune("AB1$"[i%4], i*7)) + "B")
				add(s)
			}
		}
	}
	parallelFor(len(cases), 16, func(i int) {
		if ct.Failed() {
			return
		}
		ct.guard(func() {
			acc, v := checkC10(ct, st, cases[i])
			st.Eval()
			c10Account(st, cases[i], acc, v, true)
		})
	})
	st.Sample("boundary", cases[len(cases)-1])
	st.Sample("boundary", EncSpec{Fam: "code128", Content: BStr(strings.Repeat("a", 81))})
	if ct.Failed() {
		t.Fatalf("%s", ct.first)
	}
}

// HugeInput: one call with a content of N characters cycling through Alphabet, executed in a process of its own
// (thorough tier). "Returns either a barcode or an error" also has to hold for inputs of many megabytes: an encoder whose
// recursion depth grows with the input dies of stack exhaustion, which no recover() in the caller can turn into an
// error. A run that exceeds the time limit or the machine's memory is not judged.
type HugeInput struct {
	Fam      string `json:"fam"`
	N        int    `json:"n"`
	Alphabet string `json:"alphabet"`
}

func checkHugeInput(t TB, st *Stats, c HugeInput) string {
	bin, err := oneshotPath(false)
	if err != nil {
		t.Fatalf("INFRASTRUCTURE: %v", err)
	}
	ctx, cancel := context.WithTimeout(context.Background(), 400*time.Second)
	defer cancel()
	cmd := exec.CommandContext(ctx, bin, "giant", c.Fam, strconv.Itoa(c.N), c.Alphabet)
	var so, se bytes.Buffer
	cmd.Stdout, cmd.Stderr = &so, &se
	rerr := cmd.Run()
	out, errOut := so.String(), se.String()
	switch {
	case ctx.Err() != nil:
		return "not judged: time limit"
	case rerr == nil && (strings.HasPrefix(out, "giant: error") || strings.HasPrefix(out, "giant: barcode")):
		return strings.TrimSpace(out)
	case strings.HasPrefix(out, "giant: panic"):
		failf(t, "C10", "huge-input", c, "%s", strings.TrimSpace(out))
	case strings.Contains(errOut, "stack overflow") || strings.Contains(errOut, "goroutine stack exceeds"):
		failf(t, "C10", "huge-input", c, "the process died of stack exhaustion (recursion depth grows with the input): %s", firstLines(errOut, 3))
	case strings.Contains(errOut, "out of memory") || strings.Contains(errOut, "cannot allocate"):
		return "not judged: out of memory"
	case strings.Contains(errOut, "fatal error:") || strings.Contains(errOut, "panic:"):
		failf(t, "C10", "huge-input", c, "the process died: %s", firstLines(errOut, 3))
	default:
		return fmt.Sprintf("not judged: helper failed (%v)", rerr)
	}
	return "violation"
}

func firstLines(s string, n int) string {
	l := strings.SplitN(s, "\n", n+1)
	if len(l) > n {
		l = l[:n]
	}
	return strings.Join(l, " | ")
}

func init() { register("huge-input", func(t TB, c HugeInput) { checkHugeInput(t, nil, c) }) }

// TestC10Huge (thorough tier): inputs of 1 to 16 million characters.
func TestC10Huge(t *testing.T) {
	st := NewStats("C10", "huge")
	defer st.Flush()
	ct := &collectTB{}
	var cases []HugeInput
	for _, n := range []int{1 << 20, 13000000, 16000000} {
		cases = append(cases, HugeInput{"aztec", n, "0123456789"}, HugeInput{"aztec", n, "ABCDEFGHIJKLMNOPQRSTUVWXYZ"})
	}
	cases = append(cases, HugeInput{"aztec", 8000000, "a1B, c2D. "}, HugeInput{"aztec", 4000000, "\x80\x01\xff"},
		HugeInput{"pdf417", 16000000, "0123456789"}, HugeInput{"pdf417", 200000, "ABCDEFGHIJ abc 12"},
		HugeInput{"datamatrix", 16000000, "0123456789"}, HugeInput{"datamatrix", 16000000, "aB\x80"},
		HugeInput{"qr", 16000000, "0123456789"}, HugeInput{"qr", 16000000, "AB $%"}, HugeInput{"qr", 16000000, "a\x80"},
		HugeInput{"code128", 16000000, "0123456789"}, HugeInput{"code128", 16000000, "aB1"}, HugeInput{"ean", 16000000, "0123456789"},
		HugeInput{"codabar", 16000000, "0123456789"}, HugeInput{"2of5", 2000000, "0123456789"}, HugeInput{"itf", 2000000, "0123456789"},
		HugeInput{"code39", 1000000, "ABC123"}, HugeInput{"code93", 1000000, "ABC123"})
	parallelFor(len(cases), 3, func(i int) {
		if ct.Failed() {
			return
		}
		ct.guard(func() {
			res := checkHugeInput(ct, st, cases[i])
			st.Eval()
			if strings.HasPrefix(res, "not judged") {
				st.Class("huge input: " + res)
				return
			}
			st.NonTrivial(c10Hash(EncSpec{Fam: "huge " + cases[i].Fam, Content: BStr(cases[i].Alphabet), A: cases[i].N}))
			st.Class("huge input (>= 1M characters) in a process of its own: " + strings.SplitN(res, " ", 3)[1])
		})
	})
	st.Sample("huge", cases[2])
	if ct.Failed() {
		t.Fatalf("%s", ct.first)
	}
}
