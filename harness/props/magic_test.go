package props

// "Format magic": contents that mean something to barcode software other than their bytes - byte order marks, ISO 15434
// message envelopes (DataMatrix macro codewords 236/237), GS1 element strings and symbology identifiers, FNC1 / GS
// separators, ECI escapes, Code 39 start/stop characters and full-ASCII escapes, Shift-JIS Kanji bytes, vCard / Wi-Fi /
// URL payloads, whitespace at the edges. An encoder that "helpfully" recognises one of them (strips a BOM, folds an
// envelope into a macro codeword, treats ]d2 or (01) as GS1, trims blanks, interprets \000026 as an ECI) encodes something
// else than it was given. Random generation essentially never produces these prefixes; they are swept deterministically
// through every round-trip check and every option mix.

import (
	"strings"
	"testing"
)

var formatMagic = []string{
	"\xef\xbb\xbf", "\xef\xbb\xbfhello", "\xef\xbb\xbf12345", "hello\xef\xbb\xbf", "\xff\xfeh\x00i\x00", "\xfe\xff\x00h\x00i", "\xef\xbb\xbf\xef\xbb\xbfX",
	"[)>\x1e05\x1d0112345678901231\x1e\x04", "[)>\x1e06\x1dP12345\x1dS999\x1e\x04", "[)>\x1e05\x1d\x1e\x04", "[)>\x1e06\x1d\x1e\x04", "[)>\x1e05\x1dABC", "[)>\x1e07\x1dABC\x1e\x04", "x[)>\x1e05\x1dABC\x1e\x04",
	"(01)09501101530003(17)140704(10)AB-123", "(01)09501101530003", "]d201095011015300031714070410AB-123", "]C10109501101530003", "]Q301095011015300031714070410AB", "]e0010950110153000317140704",
	"\x1d0109501101530003", "0109501101530003\x1d10ABC", "01095011015300031714070410AB\x1d21X", "\x1d", "\x1d\x1d", "A\x1dB", "1\x1d2", "\x1e", "\x04", "\x1c",
	"ñ0109501101530003", "ñ", "ññ", "12ñ34", "ò1", "Aó", "ôôA",
	"\\000026text", "\\000003", "\\000899", "\\\\000026", "]E0", "\\", "\\\\",
	"($)", "(%)", "(/)", "(+)", "COST($)5", "LOT(+)7", "[FNC1]", "{FNC1}", "<FNC1>", "<GS>", "^FNC1", "^029", "~1", "~d029", "~029", "\\F", "\\x1d", "\\n", "%1D", "&#29;", "{GS}", "[)>",
	"*TEXT*", "*", "**", "*A", "A*", "%U", "$A", "+A", "/A", "%", "$", "+", "/", "%V", "+A+B", "100%", "A+B", "-.", ". $/+%",
	"\x93\x5f\xe4\xaa", "\x88\x9f", "\xe7\x82\xb9\xe8\x8c\x97", "\x82\xa0",
	" lead", "trail ", "  ", "\tTAB", "line\n", "line\r\n", "\r", "\n", "a\x00b", "\x00\x00", "A ", " A ",
	"https://example.org/?a=1&b=2#x", "HTTPS://EXAMPLE.ORG/A-B", "mailto:a@b.c", "user@example.com", "WIFI:S:net;T:WPA;P:pass;;", "BEGIN:VCARD\nVERSION:3.0\nN:Doe;J\nEND:VCARD", "tel:+15551234567", "geo:48.2,16.37",
	"000123", "0", "00", "0000000000000000", "+123", "-123", "+12345", "1.5", "1,5", "1e5", "0x1F", "١٢٣", "１２３",
	"A", "a", "Aa", "aA", "ÄÖÜ", "\xc4\xd6\xdc", "ß", "€", "é", "\xe9", "caf\xe9", "café", "Ã©", " ", "­", " ",
	"@", "user@host", "[", "]", "{}", "`", "~", "|", "^", "_", "\"", "'", "<>", "#", "&", "=", "?", "!", ";", ":", ",", ".",
}

func TestC01Magic(t *testing.T) {
	st := NewStats("C01", "magic")
	defer st.Flush()
	ct := &collectTB{}
	var cases []QRCase
	for i, m := range formatMagic {
		for mode := 0; mode <= 3; mode++ {
			cases = append(cases, QRCase{Content: BStr(m), Level: (i + mode) % 4, Mode: mode})
		}
		cases = append(cases, QRCase{Content: BStr(m + strings.Repeat("7", 40)), Level: i % 4, Mode: 0}, QRCase{Content: BStr(m + "HELLO WORLD"), Level: i % 4, Mode: 3})
	}
	parallelFor(len(cases), 16, func(i int) {
		if ct.Failed() {
			return
		}
		ct.guard(func() {
			c01Account(st, cases[i], checkQRRoundTrip(ct, cases[i]))
			st.Eval()
			st.Class("format-magic content")
		})
	})
	st.Sample("magic", cases[4])
	if ct.Failed() {
		t.Fatalf("%s", ct.first)
	}
}

func TestC02Magic(t *testing.T) {
	st := NewStats("C02", "magic")
	defer st.Flush()
	ct := &collectTB{}
	var cases []DMCase
	for _, m := range formatMagic {
		cases = append(cases, DMCase{Content: BStr(m)}, DMCase{Content: BStr(m + "0123456789ABC")}, DMCase{Content: BStr(m + strings.Repeat("x", 60) + m)})
	}
	parallelFor(len(cases), 16, func(i int) {
		if ct.Failed() {
			return
		}
		ct.guard(func() {
			c02Account(st, cases[i], checkDMRoundTrip(ct, cases[i]))
			st.Eval()
			st.Class("format-magic content")
		})
	})
	st.Sample("magic", cases[21])
	if ct.Failed() {
		t.Fatalf("%s", ct.first)
	}
}

func TestC03Magic(t *testing.T) {
	st := NewStats("C03", "magic")
	defer st.Flush()
	ct := &collectTB{}
	var cases []AztecCase
	for i, m := range formatMagic {
		if m == "" {
			continue
		}
		cases = append(cases, AztecCase{Payload: BStr(m), ECC: 23}, AztecCase{Payload: BStr(m + "Aztec 123"), ECC: []int{0, 10, 33, 50}[i%4], Layers: []int{0, 0, -4, 5}[i%4]},
			AztecCase{Payload: BStr("abc" + m + m), ECC: 33})
	}
	parallelFor(len(cases), 16, func(i int) {
		if ct.Failed() {
			return
		}
		ct.guard(func() {
			c03Account(st, cases[i], checkAztecRoundTrip(ct, st, cases[i]))
			st.Eval()
			st.Class("format-magic content")
		})
	})
	st.Sample("magic", cases[21])
	if ct.Failed() {
		t.Fatalf("%s", ct.first)
	}
}

func TestC04Magic(t *testing.T) {
	st := NewStats("C04", "magic")
	defer st.Flush()
	ct := &collectTB{}
	var cases []PDFCase
	for i, m := range formatMagic {
		cases = append(cases, PDFCase{Content: BStr(m), Level: i % 9}, PDFCase{Content: BStr(m + "PDF417 1234567890123456"), Level: (i + 3) % 9}, PDFCase{Content: BStr("abc" + m + m), Level: (i + 5) % 9})
	}
	parallelFor(len(cases), 16, func(i int) {
		if ct.Failed() {
			return
		}
		ct.guard(func() {
			c04Account(st, cases[i], checkPDFRoundTrip(ct, cases[i]))
			st.Eval()
			st.Class("format-magic content")
		})
	})
	st.Sample("magic", cases[21])
	if ct.Failed() {
		t.Fatalf("%s", ct.first)
	}
}

func TestC05Magic(t *testing.T) {
	st := NewStats("C05", "magic")
	defer st.Flush()
	ct := &collectTB{}
	var cases []C128Case
	for _, m := range formatMagic {
		for _, cs := range []bool{true, false} {
			cases = append(cases, C128Case{Content: BStr(m), Checksum: cs}, C128Case{Content: BStr(m + "1234"), Checksum: cs}, C128Case{Content: BStr("ab" + m), Checksum: cs})
		}
	}
	parallelFor(len(cases), 16, func(i int) {
		if ct.Failed() {
			return
		}
		ct.guard(func() {
			c05Account(st, cases[i], checkCode128(ct, cases[i]))
			st.Eval()
			st.Class("format-magic content")
		})
	})
	st.Sample("magic", cases[60])
	if ct.Failed() {
		t.Fatalf("%s", ct.first)
	}
}

func TestC07Magic(t *testing.T) {
	st := NewStats("C07", "magic")
	defer st.Flush()
	ct := &collectTB{}
	var cases []C39Case
	for _, m := range formatMagic {
		for _, sym := range []int{39, 93} {
			for k := 0; k < 4; k++ {
				cases = append(cases, C39Case{Sym: sym, Content: BStr(m), Checksum: k&1 == 1, FullASCII: k&2 == 2},
					C39Case{Sym: sym, Content: BStr("A" + m + "1"), Checksum: k&1 == 1, FullASCII: k&2 == 2})
			}
		}
	}
	parallelFor(len(cases), 16, func(i int) {
		if ct.Failed() {
			return
		}
		ct.guard(func() {
			c07Account(st, cases[i], checkC39(ct, cases[i]))
			st.Eval()
			st.Class("format-magic content")
		})
	})
	st.Sample("magic", cases[400])
	if ct.Failed() {
		t.Fatalf("%s", ct.first)
	}
}

func TestC08Magic(t *testing.T) {
	st := NewStats("C08", "magic")
	defer st.Flush()
	ct := &collectTB{}
	var cases []C08Case
	for _, m := range formatMagic {
		for _, kind := range []string{"codabar", "2of5", "itf", "addchecksum"} {
			cases = append(cases, C08Case{Kind: kind, Content: BStr(m)}, C08Case{Kind: kind, Content: BStr("A" + m + "B")}, C08Case{Kind: kind, Content: BStr("12" + m + "34")})
		}
	}
	parallelFor(len(cases), 16, func(i int) {
		if ct.Failed() {
			return
		}
		ct.guard(func() {
			c08Account(st, cases[i], checkC08(ct, cases[i]))
			st.Eval()
			st.Class("format-magic content")
		})
	})
	st.Sample("magic", cases[700])
	if ct.Failed() {
		t.Fatalf("%s", ct.first)
	}
}
