package props

// C01: every accepted QR content decodes back to exactly that content; structural validity.

import (
	"bytes"
	"fmt"
	"testing"

	"pgregory.net/rapid"
	"verif/ref"
)

// checkQRRoundTrip returns the reader's result (nil if the encoder rejected the content).
func checkQRRoundTrip(t TB, c QRCase) *ref.QRResult {
	noteCase("C01", "qr-roundtrip", c)
	const P, K = "C01", "qr-roundtrip"
	res, ok := qrDecodeChecked(t, P, K, c)
	want := qrExpectedMinVersion(c)
	if !ok {
		if want != 0 {
			failf(t, P, K, c, "content representable in mode %s at level %s (fits version %d) was rejected", qrModeNames[c.Mode], "LMQH"[c.Level:c.Level+1], want)
		}
		return nil
	}
	if !bytes.Equal(res.Content, c.Content) {
		failf(t, P, K, c, "symbol (version %d, mask %d, segments %s) decodes to %q", res.Version, res.Mask, segSummary(res), truncS(res.Content))
	}
	if res.Level != c.Level {
		failf(t, P, K, c, "format information names level %d, requested %d", res.Level, c.Level)
	}
	return res
}

func segSummary(r *ref.QRResult) string {
	s := ""
	for _, g := range r.Segments {
		s += fmt.Sprintf("[%s x%d]", g.Mode, g.Count)
	}
	return s
}

func truncS(b []byte) string {
	if len(b) > 80 {
		return string(b[:80]) + "…"
	}
	return string(b)
}

func init() { register("qr-roundtrip", func(t TB, c QRCase) { checkQRRoundTrip(t, c) }) }

func c01Account(st *Stats, c QRCase, res *ref.QRResult) {
	if res == nil {
		st.Class("rejected " + qrModeNames[c.Mode])
		return
	}
	st.Class("accepted " + qrModeNames[c.Mode])
	st.NonTrivial(H(c.Level, c.Mode, c.Content))
	st.Cover("qr_layouts", fmt.Sprintf("%d-%s", res.Version, "LMQH"[res.Level:res.Level+1]))
	st.Cover("qr_versions", fmt.Sprint(res.Version))
	st.Cover("qr_masks", fmt.Sprint(res.Mask))
	for _, g := range res.Segments {
		st.Cover("qr_layout_x_mode", fmt.Sprintf("%d-%s-%s", res.Version, "LMQH"[res.Level:res.Level+1], g.Mode))
	}
	ind := map[string]int{"numeric": 1, "alnum": 2, "byte": 4}
	if len(res.Segments) == 1 {
		g := res.Segments[0]
		if cp := qrCapacity(res.Version, res.Level, ind[g.Mode]); g.Count == cp {
			st.Class("at capacity of its version")
		}
	}
	if res.PadWords == 0 {
		st.Class("no pad codewords")
	}
	if res.TermBits < 4 {
		st.Class(fmt.Sprintf("terminator shortened to %d bits", res.TermBits))
	}
}

func TestC01Rapid(t *testing.T) {
	foreignWarmup("qr")
	st := NewStats("C01", "rapid")
	runRapid(t, st, func(rt *rapid.T) {
		if rapid.IntRange(0, 11).Draw(rt, "seek") == 0 {
			for _, c := range genQRSeek(rt) {
				c01Account(st, c, checkQRRoundTrip(rt, c))
				st.Class("around a size transition of the implementation (found by bisection)")
			}
			return
		}
		c := genQRCase(rt)
		res := checkQRRoundTrip(rt, c)
		c01Account(st, c, res)
		if len(c.Content) <= 16 {
			st.Sample(qrCaseLabel(c), c)
		}
	})
}

// TestC01Sweep: every (version, level) x {numeric, alphanumeric, byte} once at exactly the capacity
// of that version (thorough: also at the smallest length that needs the version, and via Auto).
func TestC01Sweep(t *testing.T) {
	foreignWarmup("qr")
	st := NewStats("C01", "sweep")
	defer st.Flush()
	ct := &collectTB{}
	type job struct {
		v, level, mode int
		low            bool
		auto           bool
	}
	var jobs []job
	for v := 40; v >= 1; v-- {
		for level := 0; level < 4; level++ {
			for mode := 1; mode <= 3; mode++ {
				jobs = append(jobs, job{v, level, mode, false, false})
				if thorough() {
					jobs = append(jobs, job{v, level, mode, true, false}, job{v, level, mode, false, true})
				}
			}
		}
	}
	parallelFor(len(jobs), 16, func(i int) {
		if ct.Failed() {
			return
		}
		j := jobs[i]
		ct.guard(func() {
			n := qrCapacity(j.v, j.level, qrIndicator[j.mode])
			if j.low {
				n = 0
				if j.v > 1 {
					n = qrCapacity(j.v-1, j.level, qrIndicator[j.mode]) + 1
				}
			}
			content := fillPattern(j.mode, int64(j.v*1000+j.level*10+j.mode), n)
			if j.mode == 3 && n > 0 {
				content[0] = 0xC3 // make sure Auto cannot fall into a denser mode
			}
			if j.mode == 2 && n > 0 {
				content[0] = 'Z'
			}
			c := QRCase{Content: BStr(content), Level: j.level, Mode: j.mode}
			if j.auto {
				c.Mode = 0
			}
			res := checkQRRoundTrip(ct, c)
			st.Eval()
			if res == nil {
				failf(ct, "C01", "qr-roundtrip", c, "content at the capacity of version %d rejected", j.v)
			}
			if res.Version > j.v || (res.Version != j.v && c.Mode != 0) {
				failf(ct, "C01", "qr-roundtrip", c, "content sized for version %d produced version %d", j.v, res.Version)
			}
			c01Account(st, c, res)
		})
	})
	// every byte value inside digit, alphanumeric and byte surroundings, through every mode: a character that one mode
	// must refuse (or Auto must send to byte mode) and an encoder quietly maps to something else
	var bytesweep []QRCase
	for b := 0; b < 256; b++ {
		for _, ctx := range [][2]string{{"AB", "CD"}, {"12", "345"}, {"", ""}, {"a", "b"}, {"$%", ""}} {
			for mode := 0; mode <= 3; mode++ {
				bytesweep = append(bytesweep, QRCase{Content: BStr(ctx[0] + string([]byte{byte(b)}) + ctx[1]), Level: (b + mode) % 4, Mode: mode})
			}
		}
	}
	parallelFor(len(bytesweep), 16, func(i int) {
		if ct.Failed() {
			return
		}
		ct.guard(func() {
			res := checkQRRoundTrip(ct, bytesweep[i])
			st.Eval()
			c01Account(st, bytesweep[i], res)
			st.Class("every byte value in five surroundings x four modes")
		})
	})
	st.Set("sweep_domain", "all 160 (version, level) x 3 modes at capacity; thorough adds the lower boundary and Auto; every byte value in five surroundings x 4 modes")
	if ct.Failed() {
		t.Fatalf("%s", ct.first)
	}
}
