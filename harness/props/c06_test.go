package props

// C06: EAN-8 / EAN-13: check digit computed/validated, symbol decodes to Content().

import (
	"fmt"
	"strings"
	"sync/atomic"
	"testing"

	"github.com/boombuler/barcode"
	"github.com/boombuler/barcode/ean"
	"pgregory.net/rapid"
	"verif/ref"
)

type EANCase struct {
	Code BStr `json:"code"`
}

func allDigits(s string) bool {
	for i := 0; i < len(s); i++ {
		if s[i] < '0' || s[i] > '9' {
			return false
		}
	}
	return true
}

// eanExpected: the full number the symbol must carry, or "" if the input must be rejected.
func eanExpected(s string) string {
	if !allDigits(s) {
		return ""
	}
	switch len(s) {
	case 7, 12:
		return s + string(byte('0'+ref.GS1Check(s)))
	case 8, 13:
		if int(s[len(s)-1]-'0') == ref.GS1Check(s[:len(s)-1]) {
			return s
		}
	}
	return ""
}

func encodeEAN(code string) (bc barcode.BarcodeIntCS, err error, pv any) {
	pv = try(func() { bc, err = ean.Encode(code) })
	return
}

// checkEAN returns true if the code was (rightly) accepted.
func checkEAN(t TB, c EANCase) bool {
	noteCase("C06", "ean", c)
	code := string(c.Code)
	bc, err, pv := encodeEAN(code)
	if pv != nil {
		failf(t, "C06", "ean", c, "%v", pv)
	}
	want := eanExpected(code)
	if err != nil || nilBarcode(bc) {
		if want != "" {
			failf(t, "C06", "ean", c, "valid input rejected (%v); expected symbol for %s", err, want)
		}
		if err == nil || !nilBarcode(bc) {
			failf(t, "C06", "ean", c, "inconsistent result: barcode nil=%v, err=%v", nilBarcode(bc), err)
		}
		return false
	}
	if want == "" {
		failf(t, "C06", "ean", c, "invalid input accepted (content %q)", bc.Content())
	}
	if len(code)%5 == 2 { // 7 and 12 digit inputs: cheap enough to keep the exhaustive parts fast
		disturb("ean")
	}
	m, merr := modules1D(bc)
	if merr != nil {
		failf(t, "C06", "ean", c, "%v", merr)
	}
	colourVariant(t, "C06", "ean", c, EncSpec{Fam: "ean", Content: c.Code}, [][]bool{m})
	wantW, kind := 67, "EAN 8"
	if len(want) == 13 {
		wantW, kind = 95, "EAN 13"
	}
	if len(m) != wantW {
		failf(t, "C06", "ean", c, "symbol is %d modules wide, want %d", len(m), wantW)
	}
	got, derr := ref.DecodeEAN(m)
	if derr != nil {
		failf(t, "C06", "ean", c, "reference decoder: %v", derr)
	}
	if got != want {
		failf(t, "C06", "ean", c, "symbol decodes to %s, want %s", got, want)
	}
	if bc.Content() != want {
		failf(t, "C06", "ean", c, "Content()=%q, want %q", bc.Content(), want)
	}
	if md := bc.Metadata(); md.CodeKind != kind || md.Dimensions != 1 {
		failf(t, "C06", "ean", c, "Metadata()=%+v, want kind %q dimensions 1", md, kind)
	}
	return true
}

// checkEANRelated: the zero-extended EAN-13 of an EAN-8 number (and the EAN-8 of an EAN-13 with five leading zeros)
// is a different symbol of the same numeric value; encoded right after it, it must still be its own symbol.
func checkEANRelated(t TB, c EANCase) {
	want := eanExpected(string(c.Code))
	switch {
	case len(want) == 8:
		checkEAN(t, EANCase{Code: BStr("00000" + want)})
		checkEAN(t, EANCase{Code: BStr("00000" + want[:7])})
	case len(want) == 13 && want[:5] == "00000":
		checkEAN(t, EANCase{Code: BStr(want[5:])})
	}
	checkEAN(t, c)
}

func init() { register("ean", func(t TB, c EANCase) { checkEANRelated(t, c) }) }

func genEAN(t *rapid.T) string {
	// one case in five draws all its digits from a palette of one or two digits (all nines, all zeros,
	// 9090..., extreme weighted sums): uniformly random digits practically never produce these
	var palette []int
	if rapid.IntRange(0, 4).Draw(t, "lowentropy") == 0 {
		palette = []int{rapid.SampledFrom([]int{9, 0, 1, 5, 8, 2, 3, 4, 6, 7}).Draw(t, "p0")}
		if rapid.Bool().Draw(t, "p2") {
			palette = append(palette, rapid.IntRange(0, 9).Draw(t, "p1"))
		}
	}
	digits := func(n int) string {
		b := make([]byte, n)
		for i := range b {
			if palette != nil {
				b[i] = byte('0' + palette[rapid.IntRange(0, len(palette)-1).Draw(t, "pd")])
				continue
			}
			b[i] = byte('0' + rapid.IntRange(0, 9).Draw(t, "d"))
		}
		return string(b)
	}
	switch rapid.IntRange(0, 19).Draw(t, "kind") {
	case 0, 1, 2:
		return digits(7)
	case 3, 4, 5:
		return digits(12)
	case 6, 7: // 8 digits, right check digit
		s := digits(7)
		return s + string(byte('0'+ref.GS1Check(s)))
	case 8, 9:
		s := digits(12)
		return s + string(byte('0'+ref.GS1Check(s)))
	case 10:
		return digits(8)
	case 11:
		return digits(13)
	case 12: // wrong lengths
		return digits(rapid.IntRange(0, 20).Draw(t, "len"))
	case 13: // non-digit at some position
		n := rapid.SampledFrom([]int{7, 8, 12, 13}).Draw(t, "n")
		b := []byte(digits(n))
		b[rapid.IntRange(0, n-1).Draw(t, "pos")] = rapid.SampledFrom([]byte{'B', 'F', 'a', ' ', '/', ':', '-', '+', 0, 0xff}).Draw(t, "bad")
		return string(b)
	case 14: // the encoder's internal error markers as last characters
		n := rapid.SampledFrom([]int{6, 7, 11, 12}).Draw(t, "n")
		return digits(n) + rapid.SampledFrom([]string{"B", "BB", "F", "FF", "BF"}).Draw(t, "tail")
	case 15: // multi-byte runes making a "right" byte length
		n := rapid.SampledFrom([]int{5, 6, 10, 11}).Draw(t, "n")
		return digits(n) + rapid.SampledFrom([]string{"é", "٣", "１", "ñ"}).Draw(t, "mb")
	case 16: // one non-ASCII rune spliced in so that the BYTE length is 7, 8, 12 or 13: digits of other scripts,
		// runes whose low byte is an ASCII digit, arbitrary runes
		var r rune
		switch rapid.IntRange(0, 2).Draw(t, "rk") {
		case 0:
			r = rapid.SampledFrom(nonASCIIDigits).Draw(t, "nd")
		case 1:
			r = aliasRune(byte('0'+rapid.IntRange(0, 9).Draw(t, "ad")), rapid.IntRange(0, 199).Draw(t, "ak"))
		default:
			r = rune(rapid.IntRange(0x80, 0x2FFFF).Draw(t, "anyrune"))
			if r >= 0xD800 && r <= 0xDFFF {
				r = 0x3031
			}
		}
		rs := string(r)
		target := rapid.SampledFrom([]int{7, 8, 12, 13}).Draw(t, "target")
		nd := target - len(rs)
		pos := rapid.IntRange(0, nd).Draw(t, "pos")
		d := digits(nd)
		return d[:pos] + rs + d[pos:]
	default:
		n := rapid.SampledFrom([]int{7, 8, 12, 13}).Draw(t, "n")
		return digits(n)
	}
}

func c06Account(st *Stats, code string, ok bool) {
	if !ok {
		st.Class("rejected")
		return
	}
	st.Class(fmt.Sprintf("accepted len %d", len(code)))
	st.NonTrivial(H(code))
	full := eanExpected(code)
	if len(full) == 13 {
		for p := 1; p < 13; p++ {
			st.Cover("ean13_cells", fmt.Sprintf("%c/%d/%c", full[0], p, full[p]))
		}
	} else {
		for p := 0; p < 8; p++ {
			st.Cover("ean8_cells", fmt.Sprintf("%d/%c", p, full[p]))
		}
	}
}

func TestC06Rapid(t *testing.T) {
	foreignWarmup("ean")
	st := NewStats("C06", "rapid")
	runRapid(t, st, func(rt *rapid.T) {
		c := EANCase{Code: BStr(genEAN(rt))}
		ok := checkEAN(rt, c)
		if ok && rapid.IntRange(0, 2).Draw(rt, "related") == 0 {
			checkEANRelated(rt, c)
		}
		c06Account(st, string(c.Code), ok)
		st.Sample(fmt.Sprintf("len %d accepted=%v", len(c.Code), ok), c)
	})
}

// TestC06Covering: every (first digit, position, digit) cell of EAN-13 with 10 completions each,
// built deterministically from the seed-independent pattern generator.
func TestC06Covering(t *testing.T) {
	st := NewStats("C06", "covering")
	defer st.Flush()
	ct := &collectTB{}
	parallelFor(10*12*10, 16, func(idx int) {
		if ct.Failed() {
			return
		}
		first, pos, dig := idx/120, 1+(idx/10)%12, idx%10
		ct.guard(func() {
			for k := 0; k < 10; k++ {
				b := make([]byte, 12)
				for i := range b {
					x := uint64(idx*131+k*7919+i*104729) * 0x9E3779B97F4A7C15
					b[i] = byte('0' + (x>>33)%10)
				}
				b[0] = byte('0' + first)
				if pos < 12 {
					b[pos] = byte('0' + dig)
				}
				s := string(b)
				if pos == 12 { // the cell is the check digit position: search a completion with that check digit
					for j := 0; j < 10; j++ {
						b[11] = byte('0' + j)
						if ref.GS1Check(string(b)) == dig {
							break
						}
					}
					s = string(b)
				}
				variant := s
				if k%2 == 1 {
					variant = s + string(byte('0'+ref.GS1Check(s)))
				}
				ok := checkEAN(ct, EANCase{Code: BStr(variant)})
				st.Eval()
				c06Account(st, variant, ok)
			}
		})
	})
	// periodic two-digit patterns abab... for all 100 (a, b): the extreme weighted sums (all nines, all zeros,
	// 9090..., 0909...) of both symbol kinds, as 7/12 digits and as 8/13 digits with each of the ten last digits
	parallelFor(100, 16, func(idx int) {
		if ct.Failed() {
			return
		}
		ct.guard(func() {
			for _, n := range []int{7, 12} {
				b := make([]byte, n)
				for i := range b {
					b[i] = byte('0' + []int{idx / 10, idx % 10}[i%2])
				}
				variants := []string{string(b)}
				for d := 0; d < 10; d++ {
					variants = append(variants, string(b)+string(byte('0'+d)))
				}
				for _, v := range variants {
					ok := checkEAN(ct, EANCase{Code: BStr(v)})
					st.Eval()
					c06Account(st, v, ok)
					if ok {
						st.Class("accepted periodic two-digit pattern")
					}
				}
			}
		})
	})
	if ct.Failed() {
		t.Fatalf("%s", ct.first)
	}
}

// TestC06Exhaustive: all 10^7 seven-digit and all 10^8 eight-digit strings (thorough);
// quick: every 97th of them.
func TestC06Exhaustive(t *testing.T) {
	st := NewStats("C06", "exhaustive")
	defer st.Flush()
	ct := &collectTB{}
	stride := 97
	if thorough() {
		stride = 1
	}
	var acc7, acc8, rej8 int64
	const chunk = 10000
	parallelFor(10000000/chunk, 16, func(ci int) {
		if ct.Failed() {
			return
		}
		ct.guard(func() {
			var a7, a8, r8 int64
			buf7 := make([]byte, 7)
			for n := ci * chunk; n < (ci+1)*chunk; n++ {
				if n%stride != 0 {
					continue
				}
				x := n
				for i := 6; i >= 0; i-- {
					buf7[i] = byte('0' + x%10)
					x /= 10
				}
				if checkEAN(ct, EANCase{Code: BStr(string(buf7))}) {
					a7++
				}
				// all ten 8-digit extensions of this prefix: exactly one may be accepted
				for d := 0; d < 10; d++ {
					if checkEAN(ct, EANCase{Code: BStr(string(buf7) + string(byte('0'+d)))}) {
						a8++
					} else {
						r8++
					}
				}
			}
			atomic.AddInt64(&acc7, a7)
			atomic.AddInt64(&acc8, a8)
			atomic.AddInt64(&rej8, r8)
		})
	})
	st.EvalN(acc7 + acc8 + rej8)
	st.NonTrivialN(acc7 + acc8)
	st.ClassN("accepted len 7", acc7)
	st.ClassN("accepted len 8", acc8)
	st.ClassN("rejected len 8 (wrong check digit)", rej8)
	st.Sample("exhaustive", EANCase{Code: BStr("9999999")})
	if stride == 1 {
		st.Set("exhaustive", true)
		st.Set("exhaustive_domain", "all 10^7 seven-digit and all 10^8 eight-digit strings")
	} else {
		st.Set("exhaustive_domain", fmt.Sprintf("every %dth seven-digit string with all ten eight-digit extensions (the thorough tier enumerates all)", stride))
	}
	if ct.Failed() {
		t.Fatalf("%s", ct.first)
	}
	_ = strings.Repeat
}

// TestC06Magic: decorated forms of valid numbers - the human-readable interpretation line with its blanks or hyphens,
// scanner symbology identifiers (]E0, ]E4), labels, add-ons, signs, surrounding whitespace, digits of other scripts.
// All of them contain a non-digit or have a wrong length: "given 8 or 13 digits it succeeds exactly when ...".
func TestC06Magic(t *testing.T) {
	st := NewStats("C06", "magic")
	defer st.Flush()
	ct := &collectTB{}
	var cases []string
	for _, n := range []string{"5901234123457", "4006381333931", "0000000000000", "9999999999994", "55123457", "96385074", "00000000", "590123412345", "5512345"} {
		cases = append(cases, n)
		for _, sep := range []string{" ", "-", ".", " ", "\t"} {
			if len(n) >= 12 {
				cases = append(cases, n[:1]+sep+n[1:7]+sep+n[7:], n[:1]+sep+n[1:], n[:7]+sep+n[7:], n[:3]+sep+n[3:7]+sep+n[7:12]+sep+n[12:])
			} else {
				cases = append(cases, n[:4]+sep+n[4:], n[:1]+sep+n[1:], sep+n[:4]+sep+n[4:]+sep)
			}
			cases = append(cases, sep+n, n+sep, sep+n+sep)
		}
		for _, pre := range []string{"]E0", "]E4", "]E3", "]e0", "]C1", "]d2", "EAN", "EAN-13:", "EAN13 ", "GTIN:", "(01)", "(01)0", "01", "0", "00", "+", "-", "#", "0x", "\ufeff", "\x00"} {
			cases = append(cases, pre+n)
		}
		for _, suf := range []string{"+12", "+12345", " 12", " 12345", "-5", "\n", "\r\n", "\x00", ".0", "e0", "X", ">", "12", "12345"} {
			cases = append(cases, n+suf)
		}
		full := []rune(n)
		for i := range full {
			full[i] = '０' + (full[i] - '0')
		}
		cases = append(cases, string(full), n[:len(n)-1]+string('٠'+rune(n[len(n)-1]-'0')))
	}
	// digit strings whose length is 7, 8, 12 or 13 modulo 256 / 65536 (a length kept in a byte or a 16-bit word)
	for _, base := range []int{256, 512, 1024, 65536, 131072} {
		for _, l := range []int{7, 8, 12, 13} {
			d := strings.Repeat("5901234123457", (base+l)/13+1)[:base+l-1]
			for last := 0; last < 10; last++ {
				cases = append(cases, d+string(byte('0'+last)))
			}
		}
	}
	parallelFor(len(cases), 16, func(i int) {
		if ct.Failed() {
			return
		}
		ct.guard(func() {
			ok := checkEAN(ct, EANCase{Code: BStr(cases[i])})
			st.Eval()
			c06Account(st, cases[i], ok)
			st.Class("decorated form of a valid number")
		})
	})
	st.Sample("magic", EANCase{Code: BStr(cases[3])})
	if ct.Failed() {
		t.Fatalf("%s", ct.first)
	}
}
