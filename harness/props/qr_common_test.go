package props

// Shared QR machinery for C01, C12, C13 (and C10/C11): case type, generator, encode+decode.

import (
	"fmt"
	"strings"

	"github.com/boombuler/barcode"
	"github.com/boombuler/barcode/qr"
	"pgregory.net/rapid"
	"verif/ref"
)

type QRCase struct {
	Content BStr `json:"content"`
	Level   int  `json:"level"` // 0=L 1=M 2=Q 3=H
	Mode    int  `json:"mode"`  // 0=Auto 1=Numeric 2=AlphaNumeric 3=Unicode
}

var qrLevels = []qr.ErrorCorrectionLevel{qr.L, qr.M, qr.Q, qr.H}
var qrModes = []qr.Encoding{qr.Auto, qr.Numeric, qr.AlphaNumeric, qr.Unicode}
var qrModeNames = []string{"Auto", "Numeric", "AlphaNumeric", "Unicode"}

const qrAlnumSet = "0123456789ABCDEFGHIJKLMNOPQRSTUVWXYZ $%*+-./:"

// qrIndicator maps the API mode to the standard's mode indicator (1 numeric, 2 alnum, 4 byte).
var qrIndicator = []int{0, 1, 2, 4}

func qrInAlphabet(mode int, s []byte) bool {
	switch mode {
	case 1:
		for _, b := range s {
			if b < '0' || b > '9' {
				return false
			}
		}
	case 2:
		for _, b := range s {
			if strings.IndexByte(qrAlnumSet, b) < 0 {
				return false
			}
		}
	}
	return true
}

// qrCapacity: largest character count that fits version v at level in mode (indicator).
func qrCapacity(v, level, ind int) int {
	avail := 8*ref.QRDataCodewords(v, level) - 4 - ref.QRCharCountBits(v, ind)
	switch ind {
	case 1:
		n := avail / 10 * 3
		r := avail % 10
		if r >= 7 {
			n += 2
		} else if r >= 4 {
			n++
		}
		return n
	case 2:
		n := avail / 11 * 2
		if avail%11 >= 6 {
			n++
		}
		return n
	}
	return avail / 8
}

// qrExpectedMinVersion: the smallest version able to hold the content in the requested mode
// (Auto: in the densest single mode that can express it); 0 = not representable.
func qrExpectedMinVersion(c QRCase) int {
	mode := c.Mode
	if mode == 0 {
		switch {
		case qrInAlphabet(1, c.Content):
			mode = 1
		case qrInAlphabet(2, c.Content):
			mode = 2
		default:
			mode = 3
		}
	} else if !qrInAlphabet(mode, c.Content) {
		return 0
	}
	return ref.QRMinVersion(c.Level, qrIndicator[mode], len(c.Content))
}

func qrEncode(c QRCase) (bc barcode.Barcode, err error, pv any) {
	pv = try(func() { bc, err = qr.Encode(string(c.Content), qrLevels[c.Level], qrModes[c.Mode]) })
	return
}

// fillPattern produces n characters of the given class from a seed (pure function).
func fillPattern(class int, seed int64, n int) []byte {
	out := make([]byte, n)
	for i := range out {
		x := uint64(seed)*0x9E3779B97F4A7C15 + uint64(i+1)*0xBF58476D1CE4E5B9
		x ^= x >> 30
		x *= 0x94D049BB133111EB
		x ^= x >> 31
		switch class {
		case 1:
			out[i] = byte('0' + x%10)
		case 2:
			out[i] = qrAlnumSet[x%45]
		default:
			out[i] = byte(x)
		}
	}
	return out
}

func costWeightedVersion(t *rapid.T) int {
	// P(v) roughly proportional to 1/dim^2, every version reachable
	r := rapid.IntRange(0, 999).Draw(t, "vw")
	acc := 0.0
	total := 0.0
	for v := 1; v <= 40; v++ {
		d := float64(17 + 4*v)
		total += 1 / (d * d)
	}
	for v := 1; v <= 40; v++ {
		d := float64(17 + 4*v)
		acc += 1 / (d * d) / total * 1000
		if float64(r) < acc {
			return v
		}
	}
	return 40
}

// genQRCase builds a case aimed at a target (version, level, mode) and a length at/around that
// version's capacity boundary.
func genQRCase(t *rapid.T) QRCase {
	c := QRCase{Level: rapid.IntRange(0, 3).Draw(t, "level"), Mode: rapid.IntRange(0, 3).Draw(t, "mode")}
	v := costWeightedVersion(t)
	class := c.Mode // content class: 1 digits, 2 alnum, 3 bytes
	if c.Mode == 0 {
		class = rapid.IntRange(1, 3).Draw(t, "autoclass")
	}
	ind := qrIndicator[class]
	hi := qrCapacity(v, c.Level, ind)
	lo := 0
	if v > 1 {
		lo = qrCapacity(v-1, c.Level, ind) + 1
	}
	var n int
	switch rapid.IntRange(0, 9).Draw(t, "lenkind") {
	case 0, 1:
		n = hi
	case 2:
		n = lo
	case 3:
		n = hi - 1
	case 4:
		if v == 40 {
			n = hi + rapid.IntRange(1, 3).Draw(t, "over")
		} else {
			n = hi + 1
		}
	case 5:
		n = rapid.IntRange(0, 12).Draw(t, "tiny")
	default:
		if lo > hi {
			lo = hi
		}
		n = rapid.IntRange(lo, hi).Draw(t, "len")
	}
	if n < 0 {
		n = 0
	}
	np := n
	if np > 24 {
		np = 24
	}
	var prefix []byte
	for i := 0; i < np; i++ {
		switch class {
		case 1:
			prefix = append(prefix, byte('0'+rapid.IntRange(0, 9).Draw(t, "d")))
		case 2:
			prefix = append(prefix, qrAlnumSet[rapid.IntRange(0, 44).Draw(t, "a")])
		default:
			prefix = append(prefix, rapid.Byte().Draw(t, "b"))
		}
	}
	content := append(prefix, fillPattern(class, int64(rapid.IntRange(0, 1<<30).Draw(t, "fill")), n-np)...)
	// perturbations: characters that change the mode or must be rejected
	if len(content) > 0 {
		switch rapid.IntRange(0, 19).Draw(t, "perturb") {
		case 0: // last character leaves the class
			content[len(content)-1] = rapid.SampledFrom([]byte{'A', 'a', ' ', ':', '_', 0, 0xC3}).Draw(t, "last")
		case 1: // sign characters at a 3-digit chunk start (strconv-style parsers accept them)
			p := rapid.IntRange(0, (len(content)-1)/3).Draw(t, "chunk") * 3
			content[p] = rapid.SampledFrom([]byte{'+', '-'}).Draw(t, "sign")
		case 3: // any position, any byte value
			content[rapid.IntRange(0, len(content)-1).Draw(t, "anypos")] = rapid.Byte().Draw(t, "anybyte")
		case 2: // any position, any of the hostile characters
			p := rapid.IntRange(0, len(content)-1).Draw(t, "pos")
			content[p] = rapid.SampledFrom([]byte{'+', '-', '_', ' ', 'x', 'e', '.', 0xFF, 0x80, '*', 'a'}).Draw(t, "hostile")
		}
	}
	// valid UTF-8 text beyond Latin-1 (Cyrillic, Latin Extended, Greek, CJK, emoji), alone or mixed with the
	// 45-character set: must be byte mode in Auto and rejected by Numeric/AlphaNumeric
	if rapid.IntRange(0, 11).Draw(t, "unicode") == 0 {
		nr := rapid.IntRange(1, 24).Draw(t, "nrunes")
		var sb []rune
		for i := 0; i < nr; i++ {
			switch rapid.IntRange(0, 7).Draw(t, "rk") {
			case 0:
				sb = append(sb, rune(qrAlnumSet[rapid.IntRange(0, 44).Draw(t, "a")]))
			case 1:
				sb = append(sb, rune(rapid.IntRange(0x80, 0xFF).Draw(t, "latin1")))
			case 2:
				sb = append(sb, rune(rapid.IntRange(0x100, 0x17F).Draw(t, "latinext")))
			case 3, 4:
				sb = append(sb, rune(rapid.IntRange(0x410, 0x44F).Draw(t, "cyrillic")))
			case 5:
				sb = append(sb, rune(rapid.IntRange(0x391, 0x3C9).Draw(t, "greek")))
			case 6:
				sb = append(sb, rune(rapid.IntRange(0x4E00, 0x4E7F).Draw(t, "cjk")))
			default:
				sb = append(sb, rune(rapid.IntRange(0x1F600, 0x1F64F).Draw(t, "emoji")))
			}
		}
		content = []byte(string(sb))
	}
	if rapid.IntRange(0, 19).Draw(t, "latin1") == 0 {
		content = []byte(latin1Text(t, 20))
	}
	c.Content = BStr(content)
	return c
}

// qrDecodeChecked encodes the case and, if accepted, decodes the image with the reference
// reader. It reports encoder rejection as (nil, false); any structural problem fails the
// test under the given property/check name.
func qrDecodeChecked(t TB, prop, check string, c QRCase) (*ref.QRResult, bool) {
	if n := len(c.Content); n >= 5 && n <= 200 && (c.Mode == 3 || c.Mode == 0) {
		tw := c
		tw.Content = BStr(crcTwin(c.Content, n))
		qrEncode(tw)
	}
	bc, err, pv := qrEncode(c)
	if pv != nil {
		failf(t, prop, check, c, "%v", pv)
	}
	if err != nil || nilBarcode(bc) {
		return nil, false
	}
	disturb("qr")
	m, merr := matrix2D(bc)
	if merr != nil {
		failf(t, prop, check, c, "%v", merr)
	}
	res, derr := ref.DecodeQR(m)
	colourVariant(t, prop, check, c, EncSpec{Fam: "qr", Content: c.Content, A: c.Level, B: c.Mode}, m)
	if derr != nil {
		failf(t, prop, check, c, "reference reader: %v", derr)
	}
	return res, true
}

func qrContentClass(c QRCase) string {
	switch {
	case qrInAlphabet(1, c.Content):
		return "digits"
	case qrInAlphabet(2, c.Content):
		return "alnum"
	}
	return "bytes"
}

func qrCaseLabel(c QRCase) string {
	return fmt.Sprintf("%s-%s-%s", qrModeNames[c.Mode], "LMQH"[c.Level:c.Level+1], qrContentClass(c))
}
