package props

// C13: the smallest symbol that fits is chosen.

import (
	"bytes"
	"fmt"
	"image"
	"testing"

	"github.com/boombuler/barcode"
	"pgregory.net/rapid"
	"verif/ref"
)

func sameImage(a, b barcode.Barcode) bool {
	if a.Bounds() != b.Bounds() {
		return false
	}
	r := a.Bounds()
	for y := r.Min.Y; y < r.Max.Y; y++ {
		for x := r.Min.X; x < r.Max.X; x++ {
			if a.At(x, y) != b.At(x, y) {
				return false
			}
		}
	}
	return true
}

var _ = image.Point{}

// checkC13 returns a class label, "" when the encoder rejected the input.
func checkC13(t TB, st *Stats, c C12Case) string {
	noteCase("C13", "minimal-size", c)
	const P, K = "C13", "minimal-size"
	switch c.Sym {
	case "qr":
		res, ok := qrDecodeChecked(t, P, K, *c.QR)
		if !ok {
			return ""
		}
		want := qrExpectedMinVersion(*c.QR)
		if want == 0 {
			// content the reference considers unrepresentable was accepted: C01/C10 judge that
			return "qr (not judged: unrepresentable per reference)"
		}
		if res.Version > want {
			failf(t, P, K, c, "version %d chosen, version %d holds %d characters in mode %s at level %s", res.Version, want, len(c.QR.Content), qrModeNames[c.QR.Mode], "LMQH"[c.QR.Level:c.QR.Level+1])
		}
		cls := "qr"
		mode := c.QR.Mode
		if mode == 0 {
			cls = "qr auto"
			mode = map[string]int{"digits": 1, "alnum": 2, "bytes": 3}[qrContentClass(*c.QR)]
		}
		if want > 1 && qrCapacity(want-1, c.QR.Level, qrIndicator[mode])+1 == len(c.QR.Content) {
			cls += " at lower boundary (one character more than the previous version holds)"
		} else if qrCapacity(want, c.QR.Level, qrIndicator[mode]) == len(c.QR.Content) {
			cls += " at upper boundary"
		}
		return cls
	case "datamatrix":
		bc, err, pv := dmEncode(*c.DM)
		if pv != nil {
			failf(t, P, K, c, "%v", pv)
		}
		if err != nil || nilBarcode(bc) {
			return ""
		}
		need := ref.DMAsciiCodewords(c.DM.Content)
		wi := ref.DMSizeFor(need)
		if wi < 0 {
			return "datamatrix (not judged: beyond capacity per reference)"
		}
		if n := bc.Bounds().Dx(); n != ref.DMSizes[wi].N || bc.Bounds().Dy() != n {
			failf(t, P, K, c, "%dx%d symbol chosen for %d codewords, the smallest size holding them is %dx%d", n, bc.Bounds().Dy(), need, ref.DMSizes[wi].N, ref.DMSizes[wi].N)
		}
		if need == ref.DMSizes[wi].Data {
			return "datamatrix at upper boundary"
		}
		if wi > 0 && need == ref.DMSizes[wi-1].Data+1 {
			return "datamatrix at lower boundary"
		}
		return "datamatrix"
	case "pdf417":
		bc, err, pv := pdfEncode(*c.PDF)
		if pv != nil {
			failf(t, P, K, c, "%v", pv)
		}
		if err != nil || nilBarcode(bc) {
			return ""
		}
		m, merr := matrix2D(bc)
		if merr != nil {
			failf(t, P, K, c, "%v", merr)
		}
		res, derr := ref.DecodePDF417(m)
		if derr != nil {
			failf(t, P, K, c, "reference reader: %v", derr)
		}
		if res.Rows < 2 || res.Rows > 30 || res.Cols < 2 || res.Cols > 30 {
			failf(t, P, K, c, "%d rows x %d columns is outside the 2..30 limits", res.Rows, res.Cols)
		}
		if res.Pads >= res.Cols {
			failf(t, P, K, c, "%d pad codewords in a symbol with %d columns: a whole row of padding", res.Pads, res.Cols)
		}
		return fmt.Sprintf("pdf417 pads=%d", min(res.Pads, 3))
	case "aztec":
		a := *c.Aztec
		a.Layers = 0
		if len(a.Payload) == 0 && knownFinding("C03", "F11-aztec-empty-payload") {
			if st != nil {
				st.Excluded("F11-aztec-empty-payload (C03)")
			}
			return ""
		}
		bc, err, pv := aztecEncode(a)
		if pv != nil {
			failf(t, P, K, c, "%v", pv)
		}
		if err != nil || nilBarcode(bc) {
			return ""
		}
		m, merr := matrix2D(bc)
		if merr != nil {
			failf(t, P, K, c, "%v", merr)
		}
		res, derr := ref.DecodeAztec(m)
		if derr != nil {
			failf(t, P, K, c, "reference reader: %v", derr)
		}
		dim := bc.Bounds().Dx()
		// the explicit request for the chosen size must give the identical image
		same := a
		same.Layers = res.Layers
		if res.Compact {
			same.Layers = -res.Layers
		}
		bc2, err2, pv2 := aztecEncode(same)
		if pv2 != nil {
			failf(t, P, K, c, "explicit request %d: %v", same.Layers, pv2)
		}
		if err2 != nil || nilBarcode(bc2) {
			failf(t, P, K, c, "automatic sizing chose compact=%v layers=%d but the explicit request %d is refused: %v", res.Compact, res.Layers, same.Layers, err2)
		}
		if !sameImage(bc, bc2) {
			failf(t, P, K, c, "explicit request %d yields a different image than the automatic choice", same.Layers)
		}
		// every smaller size must be refused
		var smaller []int
		for l := -4; l <= 32; l++ {
			if l == 0 {
				continue
			}
			compact, n := l < 0, l
			if compact {
				n = -l
			}
			if ref.AztecSize(compact, n) < dim {
				smaller = append(smaller, l)
			}
		}
		if len(a.Payload) > 300 && len(smaller) > 5 && !thorough() {
			// large payloads: the five largest smaller sizes (the ones that could plausibly fit)
			smaller = append([]int{-4, -3}, smaller[len(smaller)-3:]...)
		}
		for _, l := range smaller {
			req := a
			req.Layers = l
			b3, e3, p3 := aztecEncode(req)
			if p3 != nil {
				failf(t, P, K, c, "explicit request %d: %v", l, p3)
			}
			if e3 == nil && !nilBarcode(b3) {
				failf(t, P, K, c, "automatic sizing produced a %dx%d symbol (compact=%v, %d layers) although the explicit request %d (a %dx%d symbol) is accepted for the same payload and percentage", dim, dim, res.Compact, res.Layers, l, b3.Bounds().Dx(), b3.Bounds().Dx())
			}
		}
		return fmt.Sprintf("aztec auto, %d smaller sizes refused", min(len(smaller), 9)/3*3)
	}
	t.Fatalf("unknown symbology %q", c.Sym)
	return ""
}

func init() {
	register("minimal-size", func(t TB, c C12Case) { checkC13(t, nil, c) })
}

func TestC13Rapid(t *testing.T) {
	st := NewStats("C13", "rapid")
	runRapid(t, st, func(rt *rapid.T) {
		c := genC12(rt)
		cls := checkC13(rt, st, c)
		if cls == "" {
			st.Class("rejected " + c.Sym)
			return
		}
		st.Class(cls)
		st.NonTrivial(c12Hash(c))
		st.Sample(cls, c)
	})
}

// TestC13Sweep: lengths swept across every capacity boundary.
func TestC13Sweep(t *testing.T) {
	st := NewStats("C13", "sweep")
	defer st.Flush()
	ct := &collectTB{}
	var cases []C12Case
	// QR: every (version, level, mode) at capacity and capacity(v-1)+1, also through Auto
	for v := 1; v <= 40; v++ {
		for l := 0; l < 4; l++ {
			for mode := 1; mode <= 3; mode++ {
				hi := qrCapacity(v, l, qrIndicator[mode])
				lo := 0
				if v > 1 {
					lo = qrCapacity(v-1, l, qrIndicator[mode]) + 1
				}
				for _, n := range []int{hi, lo} {
					content := fillPattern(mode, int64(v*100+l*10+mode), n)
					if n > 0 && mode == 3 {
						content[n-1] = 0xFE
					}
					if n > 0 && mode == 2 {
						content[n-1] = ':'
					}
					q := QRCase{Content: BStr(content), Level: l, Mode: mode}
					cases = append(cases, C12Case{Sym: "qr", QR: &q})
					qa := q
					qa.Mode = 0
					cases = append(cases, C12Case{Sym: "qr", QR: &qa})
				}
			}
		}
	}
	// DataMatrix: every boundary
	for i, s := range ref.DMSizes {
		for _, cw := range []int{s.Data, s.Data - 1} {
			d := DMCase{Content: BStr(dmFit(nil, cw, 'q'))}
			cases = append(cases, C12Case{Sym: "datamatrix", DM: &d})
		}
		if i > 0 {
			d := DMCase{Content: BStr(dmFit([]byte("1234\x80"), ref.DMSizes[i-1].Data+1, 'q'))}
			cases = append(cases, C12Case{Sym: "datamatrix", DM: &d})
		}
	}
	// PDF417: codeword counts 1..~900 via homogeneous contents, all levels
	step := 5
	if thorough() {
		step = 1
	}
	for n := 0; n <= 1800; n += step {
		p := PDFCase{Content: BStr(fillPDF(1, int64(n), n)), Level: (n / step) % 9}
		cases = append(cases, C12Case{Sym: "pdf417", PDF: &p})
	}
	for n := 0; n <= 2700; n += step * 3 {
		p := PDFCase{Content: BStr(fillPDF(0, int64(n), n)), Level: (n / step) % 9}
		cases = append(cases, C12Case{Sym: "pdf417", PDF: &p})
	}
	// Aztec: payload lengths swept so that every size boundary is crossed, several percentages
	astep := 3
	if thorough() {
		astep = 1
	}
	for _, pct := range []int{0, 10, 33, 66, 100} {
		for kind := 0; kind < 3; kind++ {
			maxN := []int{3100, 1950, 3300}[kind] * 100 / (100 + pct)
			for n := 1; n <= maxN; {
				p := make([]byte, n)
				for i := range p {
					switch kind {
					case 0:
						p[i] = "ABCDEFGHIJKLMNOPQRSTUVWXYZ"[i%26]
					case 1:
						p[i] = byte(128 + (i*7)%128)
					default:
						p[i] = "0123456789"[i%10]
					}
				}
				a := AztecCase{Payload: BStr(p), ECC: pct}
				cases = append(cases, C12Case{Sym: "aztec", Aztec: &a})
				if n < 150 {
					n += astep
				} else {
					n += astep * (5 + n/40)
				}
			}
		}
	}
	// Aztec exact fits: for every size (by explicit request), EVERY percentage 0..100 and two character classes the
	// longest payload the explicit request accepts is found by bisection on the library's own answers; automatic sizing
	// must not choose a larger symbol for it (a size search that skips a size which fits to the last bit)
	type fitJob struct {
		class byte
		pct   int
		l     int
	}
	var jobs []fitJob
	maxFull := 14
	if thorough() {
		maxFull = 32
	}
	for _, class := range []byte{'a', '7'} {
		for pct := 0; pct <= 100; pct++ {
			for l := -4; l <= maxFull; l++ {
				if l != 0 {
					jobs = append(jobs, fitJob{class, pct, l})
				}
			}
		}
	}
	fits := make([]*AztecCase, len(jobs))
	parallelFor(len(jobs), 16, func(i int) {
		j := jobs[i]
		accepted := func(n int) bool {
			bc, err, pv := aztecEncode(AztecCase{Payload: BStr(bytes.Repeat([]byte{j.class}, n)), ECC: j.pct, Layers: j.l})
			return pv == nil && err == nil && !nilBarcode(bc)
		}
		if !accepted(1) {
			return
		}
		n := seekSmallest(1, 6000, func(k int) bool { return !accepted(k) }) - 1
		fits[i] = &AztecCase{Payload: BStr(bytes.Repeat([]byte{j.class}, n)), ECC: j.pct}
	})
	for _, f := range fits {
		if f != nil {
			cases = append(cases, C12Case{Sym: "aztec", Aztec: f})
		}
	}
	parallelFor(len(cases), 16, func(i int) {
		if ct.Failed() {
			return
		}
		ct.guard(func() {
			cls := checkC13(ct, st, cases[i])
			st.Eval()
			if cls != "" {
				st.Class(cls)
				st.NonTrivial(c12Hash(cases[i]))
			} else {
				st.Class("rejected " + cases[i].Sym)
			}
		})
	})
	if ct.Failed() {
		t.Fatalf("%s", ct.first)
	}
}

// ---------------------------------------------------------------------------------------------
// QR twin histories: two calls at the same level, in DIFFERENT modes, whose data streams have exactly the same
// number of bits, one of them at a capacity boundary of its mode. Whatever an encoder remembers between calls
// about "a stream of b bits at level l" (a chosen version, a search start) is right for one mode and wrong for the
// other, because the character-count field differs. Every boundary content of every (version, level, mode) with
// each of its existing twins, in one order in shard 0 and in the other order in shard 1 (fresh processes).

type QRHistory struct {
	Calls []QRCase `json:"calls"`
}

func qrPayloadBits(mode, n int) int {
	switch mode {
	case 1:
		return 10*(n/3) + []int{0, 4, 7}[n%3]
	case 2:
		return 11*(n/2) + 6*(n%2)
	}
	return 8 * n
}

// qrTwinLen: the length in mode whose data stream has exactly bits bits (ok=false if there is none).
func qrTwinLen(mode, bits int) (int, bool) {
	var n int
	switch mode {
	case 1:
		n = bits / 10 * 3
		switch bits % 10 {
		case 0:
		case 4:
			n++
		case 7:
			n += 2
		default:
			return 0, false
		}
	case 2:
		n = bits / 11 * 2
		switch bits % 11 {
		case 0:
		case 6:
			n++
		default:
			return 0, false
		}
	default:
		if bits%8 != 0 {
			return 0, false
		}
		n = bits / 8
	}
	return n, n > 0 && qrPayloadBits(mode, n) == bits
}

func checkQRHistory(t TB, st *Stats, h QRHistory, decodeToo bool) {
	noteCase("C13", "qr-twin-history", h)
	for i, q := range h.Calls {
		bc, err, pv := qrEncode(q)
		if pv != nil {
			failf(t, "C13", "qr-twin-history", h, "call %d: %v", i, pv)
		}
		want := qrExpectedMinVersion(q)
		if err != nil || nilBarcode(bc) {
			if want != 0 {
				failf(t, "C13", "qr-twin-history", h, "call %d (%d characters, mode %s, level %c) rejected after the earlier calls although version %d holds it: %v", i, len(q.Content), qrModeNames[q.Mode], "LMQH"[q.Level], want, err)
			}
			continue
		}
		if st != nil {
			st.Eval()
		}
		if want == 0 {
			continue // accepted although the reference says unrepresentable: C01/C10 judge that
		}
		w := bc.Bounds().Dx()
		got := (w - 17) / 4
		if got > want || (w-17)%4 != 0 {
			failf(t, "C13", "qr-twin-history", h, "call %d: a %dx%d symbol (version %d) after the earlier calls; the smallest version holding %d characters in mode %s at level %c is %d", i, w, w, got, len(q.Content), qrModeNames[q.Mode], "LMQH"[q.Level], want)
		}
		// a smaller symbol than the single-mode minimum is allowed by the property if it is a sound symbol (an
		// encoder may mix modes); then the reader decides
		if !decodeToo && got == want {
			continue
		}
		m, merr := matrix2D(bc)
		if merr != nil {
			failf(t, "C13", "qr-twin-history", h, "call %d: %v", i, merr)
		}
		res, derr := ref.DecodeQR(m)
		if derr != nil {
			failf(t, "C13", "qr-twin-history", h, "call %d (%d characters, mode %s, level %c, version %d): reference reader: %v", i, len(q.Content), qrModeNames[q.Mode], "LMQH"[q.Level], want, derr)
		}
		if string(res.Content) != string(q.Content) {
			failf(t, "C13", "qr-twin-history", h, "call %d: symbol decodes to other content than was passed in", i)
		}
	}
}

func init() {
	register("qr-twin-history", func(t TB, h QRHistory) { checkQRHistory(t, nil, h, true) })
}

// qrBoundaryPairs: every (version, level, mode) capacity and capacity+1 content paired with (a) each cross-mode
// content of the same stream length in bits and (b) the capacity / capacity+1 contents of the other modes for the
// same version. subsample: every version up to 14, then every third and 40.
func qrBoundaryPairs(levels []int, reverse, subsample bool) (hs []QRHistory, classes []string) {
	mk := func(mode, seed, n, level int) QRCase {
		c := QRCase{Content: BStr(fillPattern(mode, int64(seed), n)), Level: level, Mode: mode}
		if mode == 3 && n > 0 {
			c.Content[0] = 0x80
		}
		if mode == 2 && n > 0 {
			c.Content[0] = '$'
		}
		return c
	}
	add := func(a, b QRCase, cls string) {
		h := QRHistory{Calls: []QRCase{a, b}}
		if reverse {
			h.Calls = []QRCase{b, a}
		}
		if len(hs)%7 == 3 { // some through Auto: same stream, other entry parameter
			h.Calls[1].Mode = 0
		}
		hs = append(hs, h)
		classes = append(classes, cls)
	}
	for _, l := range levels {
		for v := 1; v <= 40; v++ {
			if subsample && v > 14 && v%3 != 0 && v != 40 {
				continue
			}
			for modeA := 1; modeA <= 3; modeA++ {
				capA := qrCapacity(v, l, qrIndicator[modeA])
				for _, n := range []int{capA, capA + 1} {
					if n <= 0 || (v == 40 && n > capA) {
						continue
					}
					a := mk(modeA, v*7+l, n, l)
					for modeB := 1; modeB <= 3; modeB++ {
						if modeB == modeA {
							continue
						}
						// (a) the other mode's content with exactly the same stream length in bits
						if m, ok := qrTwinLen(modeB, qrPayloadBits(modeA, n)); ok {
							add(a, mk(modeB, v*11+l, m, l), "pair with equal stream length in bits, different modes")
						}
						// (b) the other mode's contents at the boundaries of the same version
						if modeB > modeA {
							capB := qrCapacity(v, l, qrIndicator[modeB])
							for _, m := range []int{capB, capB + 1} {
								if m > 0 && !(v == 40 && m > capB) {
									add(a, mk(modeB, v*13+l, m, l), "pair at the boundaries of one version, different modes")
								}
							}
						}
					}
				}
			}
		}
	}
	return hs, classes
}

func TestC13QRTwinHistories(t *testing.T) {
	st := NewStats("C13", "twin-histories")
	defer st.Flush()
	ct := &collectTB{}
	// eight fresh processes: (order A,B | order B,A) x level; strictly sequential inside, so that "the previous
	// call" is what the list says it is. Quick tier: every version up to 14, then every third and 40.
	sh := shard()
	reverse := sh%2 == 1
	levels := []int{0, 1, 2, 3}
	if envInt("VERIF_SHARDS", 1) >= 8 {
		levels = []int{sh / 2 % 4}
	}
	hs, classes := qrBoundaryPairs(levels, reverse, !thorough())
	for i, h := range hs {
		a, b := h.Calls[0], h.Calls[1]
		st.NonTrivial(H(classes[i], a.Level, a.Mode, b.Mode, len(a.Content), len(b.Content), reverse))
		st.Class(classes[i])
	}
	for i, h := range hs {
		if ct.Failed() {
			break
		}
		ct.guard(func() { checkQRHistory(ct, st, h, i%6 == 0) })
		if i%211 == 1 && len(h.Calls[0].Content) < 60 {
			st.Sample("boundary history", h)
		}
	}
	st.Set("exhaustive_domain", "every (version, level, mode) capacity and capacity+1 content paired with (a) each cross-mode content of the same stream length in bits, (b) the capacity and capacity+1 contents of the other modes for the same version; both orders, in fresh processes, strictly sequential")
	if ct.Failed() {
		t.Fatalf("%s", ct.first)
	}
}
