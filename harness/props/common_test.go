package props

// Shared plumbing of all property checks: statistics, replay files, known findings, tiers.
// Nothing in here knows anything about barcodes.

import (
	"bytes"
	"encoding/binary"
	"encoding/json"
	"fmt"
	"hash/fnv"
	"os"
	"path/filepath"
	"runtime"
	"sort"
	"strconv"

	"sync"
	"testing"
	"verif/enc"

	"pgregory.net/rapid"
)

// TB is the part of *testing.T / *rapid.T the property bodies need.
type TB interface {
	Fatalf(format string, args ...any)
	Logf(format string, args ...any)
	Helper()
}

type BStr = enc.BStr

func tier() string {
	if v := os.Getenv("VERIF_TIER"); v == "thorough" {
		return "thorough"
	}
	return "quick"
}

func thorough() bool { return tier() == "thorough" }

func envInt(name string, def int) int {
	if v := os.Getenv(name); v != "" {
		if n, err := strconv.Atoi(v); err == nil {
			return n
		}
	}
	return def
}

func shard() int { return envInt("VERIF_SHARD", 0) }

// ---------------------------------------------------------------------------------------------
// statistics

type Stats struct {
	mu        sync.Mutex
	Property  string
	Part      string
	evals     int64
	nontriv   map[uint64]struct{}
	classes   map[string]int64
	excluded  map[string]int64
	samples   map[string][]any
	nsamples  int
	extra     map[string]any
	sets      map[string]map[string]struct{}
	violation int64
	counted   int64 // non-trivial cases that are distinct by construction (exhaustive enumerations)
}

func NewStats(property, part string) *Stats {
	part += os.Getenv("VERIF_PART_SUFFIX") // "-386": the same part executed by the 32-bit build
	return &Stats{Property: property, Part: part, nontriv: map[uint64]struct{}{}, classes: map[string]int64{},
		excluded: map[string]int64{}, samples: map[string][]any{}, extra: map[string]any{}, sets: map[string]map[string]struct{}{}}
}

func H(parts ...any) uint64 {
	h := fnv.New64a()
	for _, p := range parts {
		switch v := p.(type) {
		case []byte:
			var l [8]byte
			binary.LittleEndian.PutUint64(l[:], uint64(len(v)))
			h.Write(l[:])
			h.Write(v)
		case BStr:
			var l [8]byte
			binary.LittleEndian.PutUint64(l[:], uint64(len(v)))
			h.Write(l[:])
			h.Write(v)
		case string:
			var l [8]byte
			binary.LittleEndian.PutUint64(l[:], uint64(len(v)))
			h.Write(l[:])
			h.Write([]byte(v))
		default:
			fmt.Fprintf(h, "|%v", v)
		}
	}
	return h.Sum64()
}

func (s *Stats) Eval() {
	s.mu.Lock()
	s.evals++
	s.mu.Unlock()
}

func (s *Stats) EvalN(n int64) {
	s.mu.Lock()
	s.evals += n
	s.mu.Unlock()
}

// NonTrivial records one non-trivial case by its hash (distinctness is by hash).
func (s *Stats) NonTrivial(h uint64) {
	s.mu.Lock()
	s.nontriv[h] = struct{}{}
	s.mu.Unlock()
}

// NonTrivialN counts n non-trivial cases that are pairwise distinct by construction
// (used by exhaustive enumerations, where keeping one hash per case would need gigabytes).
func (s *Stats) NonTrivialN(n int64) {
	s.mu.Lock()
	s.counted += n
	s.mu.Unlock()
}

func (s *Stats) Class(name string) {
	s.mu.Lock()
	s.classes[name]++
	s.mu.Unlock()
}

func (s *Stats) ClassN(name string, n int64) {
	s.mu.Lock()
	s.classes[name] += n
	s.mu.Unlock()
}

// Cover records membership of key in a named coverage set (table cells, transitions, ...).
func (s *Stats) Cover(set, key string) {
	s.mu.Lock()
	m := s.sets[set]
	if m == nil {
		m = map[string]struct{}{}
		s.sets[set] = m
	}
	m[key] = struct{}{}
	s.mu.Unlock()
}

func (s *Stats) Excluded(finding string) {
	s.mu.Lock()
	s.excluded[finding]++
	s.mu.Unlock()
}

// Sample keeps up to 2 cases per class and 60 in total (first come, deterministic per seed).
func (s *Stats) Sample(class string, v any) {
	s.mu.Lock()
	if len(s.samples[class]) < 2 && s.nsamples < 60 {
		s.samples[class] = append(s.samples[class], v)
		s.nsamples++
	}
	s.mu.Unlock()
}

func (s *Stats) Set(key string, v any) {
	s.mu.Lock()
	s.extra[key] = v
	s.mu.Unlock()
}

// Flush writes <dir>/<property>.<part>.<shard>.json and .hashes (distinct non-trivial case hashes).
func (s *Stats) Flush() {
	dir := os.Getenv("VERIF_STATS_DIR")
	if dir == "" {
		return
	}
	s.mu.Lock()
	defer s.mu.Unlock()
	base := filepath.Join(dir, fmt.Sprintf("%s.%s.%d", s.Property, s.Part, shard()))
	hs := make([]byte, 0, 8*len(s.nontriv))
	for h := range s.nontriv {
		hs = binary.LittleEndian.AppendUint64(hs, h)
	}
	_ = os.WriteFile(base+".hashes", hs, 0o644)
	sets := map[string][]string{}
	for k, m := range s.sets {
		l := make([]string, 0, len(m))
		for e := range m {
			l = append(l, e)
		}
		sort.Strings(l)
		sets[k] = l
	}
	var samples []any
	keys := make([]string, 0, len(s.samples))
	for k := range s.samples {
		keys = append(keys, k)
	}
	sort.Strings(keys)
	for _, k := range keys {
		for _, v := range s.samples[k] {
			samples = append(samples, map[string]any{"class": k, "case": v})
		}
	}
	out := map[string]any{
		"property": s.Property, "part": s.Part, "shard": shard(), "evaluations": s.evals,
		"nontrivial_local": len(s.nontriv), "nontrivial_counted": s.counted, "classes": s.classes, "excluded_known_findings": s.excluded,
		"samples": samples, "extra": s.extra, "cover": sets,
	}
	b, _ := json.MarshalIndent(out, "", " ")
	_ = os.WriteFile(base+".json", b, 0o644)
}

// ---------------------------------------------------------------------------------------------
// replay files and failure reporting

type Replay struct {
	Property string          `json:"property"`
	Check    string          `json:"check"`
	Case     json.RawMessage `json:"case"`
	Observed string          `json:"observed"`
	Arch     string          `json:"arch,omitempty"` // set when the failure was found by a build other than amd64 (the replay uses the same build)
	// Before: cases executed (outcome ignored) before the case when the failure depends on the calls that preceded it
	// (pairs of contents with equal digests run back to back)
	Before []ReplayStep `json:"before,omitempty"`
}

type ReplayStep struct {
	Check string          `json:"check"`
	Case  json.RawMessage `json:"case"`
}

// prelude recording: while preludeOn is set (sequential parts only), every case noted by noteCase is kept; a failure
// reported by failf then carries the cases that ran before the failing one.
var (
	preludeOn    bool
	preludeSteps []ReplayStep
)

func preludeStart() { replayMu.Lock(); preludeOn, preludeSteps = true, nil; replayMu.Unlock() }
func preludeStop()  { replayMu.Lock(); preludeOn, preludeSteps = false, nil; replayMu.Unlock() }

func preludeAdd(check string, c any) {
	if raw, err := json.Marshal(c); err == nil {
		replayMu.Lock()
		preludeSteps = append(preludeSteps, ReplayStep{Check: check, Case: raw})
		replayMu.Unlock()
	}
}

func runPrelude(rp Replay) {
	for _, st := range rp.Before {
		if fn := replayFns[st.Check]; fn != nil {
			ct := &collectTB{}
			ct.guard(func() { fn(ct, st.Case) })
		}
	}
}

var replayFns = map[string]func(t TB, raw json.RawMessage){}

// register binds a check name to the function that re-executes a serialised case without rapid.
func register[C any](check string, fn func(t TB, c C)) {
	replayFns[check] = func(t TB, raw json.RawMessage) {
		var c C
		if err := json.Unmarshal(raw, &c); err != nil {
			t.Fatalf("bad replay case: %v", err)
		}
		fn(t, c)
	}
}

var replayMu sync.Mutex

// failf writes the replay file for the (currently shrinking) case and fails the test.
// rapid re-runs the body while shrinking and once more on the minimal case, so the file that
// remains is the minimal reproduction.
func failf(t TB, property, check string, c any, format string, args ...any) {
	t.Helper()
	msg := fmt.Sprintf(format, args...)
	if dir := os.Getenv("VERIF_REPLAY_DIR"); dir != "" && os.Getenv("VERIF_REPLAY_FILE") == "" {
		raw, err := json.Marshal(c)
		if err == nil {
			if len(msg) > 2000 {
				msg = msg[:2000] + "…"
			}
			rp := Replay{Property: property, Check: check, Case: raw, Observed: msg}
			if runtime.GOARCH != "amd64" {
				rp.Arch = runtime.GOARCH
			}
			replayMu.Lock()
			if preludeOn {
				for _, st := range preludeSteps {
					if st.Check != check || !bytes.Equal(st.Case, raw) {
						rp.Before = append(rp.Before, st)
					}
				}
			}
			b, _ := json.MarshalIndent(rp, "", " ")
			_ = os.MkdirAll(filepath.Join(dir, property), 0o755)
			_ = os.WriteFile(filepath.Join(dir, property, fmt.Sprintf("%s.shard%d.json", check, shard())), b, 0o644)
			replayMu.Unlock()
		}
	}
	t.Fatalf("[%s/%s] %s", property, check, msg)
}

// TestReplay re-executes one replay file (VERIF_REPLAY_FILE) with no generator involved.
func TestReplay(t *testing.T) {
	f := os.Getenv("VERIF_REPLAY_FILE")
	if f == "" {
		t.Skip("VERIF_REPLAY_FILE not set")
	}
	b, err := os.ReadFile(f)
	if err != nil {
		t.Fatalf("read: %v", err)
	}
	var rp Replay
	if err := json.Unmarshal(b, &rp); err != nil {
		t.Fatalf("parse: %v", err)
	}
	fn := replayFns[rp.Check]
	if fn == nil {
		t.Fatalf("unknown check %q", rp.Check)
	}
	runPrelude(rp)
	fn(t, rp.Case)
}

// TestReplayDir re-executes every replay file below VERIF_REGRESSION_DIR/<VERIF_PROPERTY> (regression tier).
func TestReplayDir(t *testing.T) {
	dir := os.Getenv("VERIF_REGRESSION_DIR")
	prop := os.Getenv("VERIF_PROPERTY")
	if dir == "" || prop == "" {
		t.Skip("no regression dir")
	}
	files, _ := filepath.Glob(filepath.Join(dir, prop, "*.json"))
	sort.Strings(files)
	st := NewStats(prop, "regression")
	defer st.Flush()
	for _, f := range files {
		b, err := os.ReadFile(f)
		if err != nil {
			t.Fatalf("read: %v", err)
		}
		var rp Replay
		if err := json.Unmarshal(b, &rp); err != nil {
			t.Fatalf("parse %s: %v", f, err)
		}
		fn := replayFns[rp.Check]
		if fn == nil {
			t.Fatalf("%s: unknown check %q", f, rp.Check)
		}
		st.Eval()
		ok := t.Run(filepath.Base(f), func(t *testing.T) { runPrelude(rp); fn(t, rp.Case) })
		if !ok {
			// make the driver point at the regression file itself
			fmt.Printf("REGRESSION-FAILED %s\n", f)
		}
	}
}

// ---------------------------------------------------------------------------------------------
// known findings

type Finding struct {
	Status   string `json:"status"` // "known" or "fixed"
	Property string `json:"property"`
	ID       string `json:"id"`
	What     string `json:"what"`
	Commit   string `json:"commit,omitempty"`
}

var (
	findingsOnce sync.Once
	findings     []Finding
)

func loadFindings() {
	findingsOnce.Do(func() {
		f := os.Getenv("VERIF_KNOWN_FINDINGS")
		if f == "" {
			return
		}
		b, err := os.ReadFile(f)
		if err != nil {
			return
		}
		var doc struct {
			Findings []Finding `json:"findings"`
		}
		if json.Unmarshal(b, &doc) == nil {
			findings = doc.Findings
		}
	})
}

// knownFinding reports whether finding id is listed with status "known" for the property.
func knownFinding(property, id string) bool {
	loadFindings()
	for _, f := range findings {
		if f.Status == "known" && f.Property == property && f.ID == id {
			return true
		}
	}
	return false
}

// ---------------------------------------------------------------------------------------------
// rapid entry helper

// runRapid runs body under rapid.Check, flushing statistics afterwards.
func runRapid(t *testing.T, st *Stats, body func(rt *rapid.T)) {
	defer st.Flush()
	rapid.Check(t, func(rt *rapid.T) {
		st.Eval()
		body(rt)
	})
}

// parallelFor runs fn(i) for i in [0,n) on all cores; stops early when a failure was recorded.
func parallelFor(n int, workers int, fn func(i int)) {
	if workers <= 0 {
		workers = 16
	}
	if caseLog != "" {
		workers = 1 // crash triage: keep the noted case unambiguous
	}
	var wg sync.WaitGroup
	ch := make(chan int, 1024)
	for w := 0; w < workers; w++ {
		wg.Add(1)
		go func() {
			defer wg.Done()
			for i := range ch {
				fn(i)
			}
		}()
	}
	for i := 0; i < n; i++ {
		ch <- i
	}
	close(ch)
	wg.Wait()
}

// collectTB lets exhaustive loops running on worker goroutines record the first failure
// without calling Fatalf off the test goroutine.
type collectTB struct {
	mu    sync.Mutex
	first string
}

type failNow struct{}

func (c *collectTB) Fatalf(format string, args ...any) {
	c.mu.Lock()
	if c.first == "" {
		c.first = fmt.Sprintf(format, args...)
	}
	c.mu.Unlock()
	panic(failNow{})
}
func (c *collectTB) Logf(string, ...any) {}
func (c *collectTB) Helper()             {}
func (c *collectTB) Failed() bool {
	c.mu.Lock()
	defer c.mu.Unlock()
	return c.first != ""
}

// guard runs fn, absorbing the failNow panic raised by collectTB.Fatalf.
func (c *collectTB) guard(fn func()) {
	defer func() {
		if r := recover(); r != nil {
			if _, ok := r.(failNow); ok {
				return
			}
			panic(r)
		}
	}()
	fn()
}

// try runs a piece of library code and returns the recovered panic value (nil if none).
// Only library calls go inside, never assertions.
func try(fn func()) (pv any) { return enc.Try(fn) }

// noteCase records the case that is about to be executed when the driver re-runs a crashed worker with
// VERIF_CASE_LOG set (crash triage: a panic on a library goroutine cannot be recovered, so the last noted case
// is the crasher).
var caseLog = os.Getenv("VERIF_CASE_LOG")

func noteCase(property, check string, c any) {
	if preludeOn {
		if raw, err := json.Marshal(c); err == nil {
			replayMu.Lock()
			if preludeOn && len(preludeSteps) < 16 {
				preludeSteps = append(preludeSteps, ReplayStep{Check: check, Case: raw})
			}
			replayMu.Unlock()
		}
	}
	if caseLog == "" {
		return
	}
	raw, err := json.Marshal(c)
	if err != nil {
		return
	}
	b, _ := json.Marshal(Replay{Property: property, Check: check, Case: raw, Observed: "process crashed while executing this case"})
	replayMu.Lock()
	_ = os.WriteFile(caseLog, b, 0o644)
	replayMu.Unlock()
}
