package props

// Hash twins: pairs of different contents with the same value under a common non-cryptographic 32-bit hash
// (FNV-1a, FNV-1, CRC-32 IEEE, CRC-32C, Adler-32, djb2, the 31x "Java" string hash, a plain byte sum).
//
// A result cache or memo table that is keyed by such a hash of the content and does not compare the content itself
// returns the first twin's result for the second one: a perfectly formed symbol of the wrong content, once in 2^32
// random calls. Such pairs are cheap to construct by a birthday search over the family's own alphabet (about 80000
// candidates give a 32-bit collision with probability 1/2), all deterministic. Every round-trip check runs each pair
// as "A, then B, then A" in one process; the full check of the property judges every call.

import (
	"fmt"
	"hash/adler32"
	"hash/crc32"
	"hash/fnv"
	"sync"
	"testing"

	"verif/ref"
)

type hashFn struct {
	name string
	fn   func([]byte) uint32
}

var hashFns = []hashFn{
	{"fnv1a-32", func(b []byte) uint32 { h := fnv.New32a(); h.Write(b); return h.Sum32() }},
	{"fnv1-32", func(b []byte) uint32 { h := fnv.New32(); h.Write(b); return h.Sum32() }},
	{"crc32-ieee", crc32.ChecksumIEEE},
	{"crc32c", func(b []byte) uint32 { return crc32.Checksum(b, crc32.MakeTable(crc32.Castagnoli)) }},
	{"adler32", adler32.Checksum},
	{"djb2", func(b []byte) uint32 {
		h := uint32(5381)
		for _, c := range b {
			h = h*33 + uint32(c)
		}
		return h
	}},
	{"java31", func(b []byte) uint32 {
		h := uint32(0)
		for _, c := range b {
			h = h*31 + uint32(c)
		}
		return h
	}},
	{"fnv1a-32 over runes (2 bytes each)", func(b []byte) uint32 {
		h := uint32(2166136261)
		for _, r := range string(b) {
			h ^= uint32(r) & 0xff
			h *= 16777619
			h ^= uint32(r>>8) & 0xff
			h *= 16777619
		}
		return h
	}},
	{"fnv1a-32 over runes (one step per rune)", func(b []byte) uint32 {
		h := uint32(2166136261)
		for _, r := range string(b) {
			h ^= uint32(r)
			h *= 16777619
		}
		return h
	}},
	{"fnv1a-32 over runes (4 bytes each, big endian)", func(b []byte) uint32 {
		h := uint32(2166136261)
		for _, r := range string(b) {
			for k := 3; k >= 0; k-- {
				h ^= uint32(r>>(8*uint(k))) & 0xff
				h *= 16777619
			}
		}
		return h
	}},
	{"fnv1a-32 over runes", func(b []byte) uint32 { // FNV-1a fed with 4 bytes per rune, little endian
		h := uint32(2166136261)
		for _, r := range string(b) {
			for k := 0; k < 4; k++ {
				h ^= uint32(r>>(8*uint(k))) & 0xff
				h *= 16777619
			}
		}
		return h
	}},
}

type twinPair struct {
	Hash string
	A, B []byte
}

var (
	twinMu    sync.Mutex
	twinCache = map[string][]twinPair{}
)

// hashTwins returns, for every hash function, up to perHash pairs of distinct strings prefix+body+suffix (body of the given
// length over the alphabet) with equal hash (birthday search over a deterministic candidate sequence; cached).
func hashTwins(prefix, alphabet, suffix string, length, perHash int) []twinPair {
	key := fmt.Sprintf("%q|%q|%q|%d|%d", prefix, alphabet, suffix, length, perHash)
	twinMu.Lock()
	defer twinMu.Unlock()
	if p, ok := twinCache[key]; ok {
		return p
	}
	var out []twinPair
	cand := func(i int) []byte {
		b := make([]byte, 0, len(prefix)+length+len(suffix))
		b = append(b, prefix...)
		x := uint64(i)*0x9E3779B97F4A7C15 + 0xD1B54A32D192ED03
		for k := 0; k < length; k++ {
			x ^= x >> 29
			x *= 0xBF58476D1CE4E5B9
			x ^= x >> 32
			b = append(b, alphabet[x%uint64(len(alphabet))])
		}
		return append(b, suffix...)
	}
	for _, hf := range hashFns {
		seen := make(map[uint32]int, 1<<18)
		found := 0
		for i := 0; i < 400000 && found < perHash; i++ {
			c := cand(i)
			h := hf.fn(c)
			if j, ok := seen[h]; ok {
				if o := cand(j); string(o) != string(c) {
					out = append(out, twinPair{hf.name, o, c})
					found++
				}
				continue
			}
			seen[h] = i
		}
	}
	twinCache[key] = out
	return out
}

const printable = " !\"#$%&'()*+,-./0123456789:;<=>?@ABCDEFGHIJKLMNOPQRSTUVWXYZ[\\]^_`abcdefghijklmnopqrstuvwxyz{|}~"

// runTwins runs every pair as A, B, A through the given check (strictly sequential: the second call must not be
// served from what the first one left behind).
func runTwins(t *testing.T, prop, part string, pairs []twinPair, check func(tb TB, content []byte, variant int)) {
	st := NewStats(prop, part)
	defer st.Flush()
	ct := &collectTB{}
	for i, p := range pairs {
		if ct.Failed() {
			break
		}
		preludeStart() // a failure's replay file carries the calls that preceded it in this pair
		ct.guard(func() {
			for _, c := range [][]byte{p.A, p.B, p.A} {
				check(ct, c, i)
				st.Eval()
			}
		})
		if !ct.Failed() {
			preludeStop()
		}
		st.NonTrivial(H("twin", p.Hash, p.A, p.B))
		st.Class("pair of contents with equal " + p.Hash)
	}
	if len(pairs) > 0 {
		st.Sample("hash twins", map[string]any{"hash": pairs[0].Hash, "a": string(pairs[0].A), "b": string(pairs[0].B)})
	}
	st.Set("hash_twin_pairs", len(pairs))
	if ct.Failed() {
		t.Fatalf("%s", ct.first)
	}
}

func TestC01Twins(t *testing.T) {
	pairs := append(hashTwins("", qrAlnumSet, "", 18, 2), hashTwins("", "0123456789", "", 24, 2)...)
	pairs = append(pairs, hashTwins("", printable, "", 14, 2)...)
	// twins of the codeword streams of single-block versions (the stream IS the Reed-Solomon block): a memo of check
	// words keyed by a digest of the block is collided by these only
	streamVL := map[string][2]int{}
	for _, vl := range [][2]int{{1, 0}, {2, 1}, {1, 3}, {3, 0}, {4, 0}} {
		for _, p := range qrStreamTwins(vl[0], vl[1], 1) {
			streamVL[string(p.A)], streamVL[string(p.B)] = vl, vl
			pairs = append(pairs, p)
		}
	}
	runTwins(t, "C01", "hash-twins", pairs, func(tb TB, c []byte, v int) {
		if vl, ok := streamVL[string(c)]; ok {
			checkQRRoundTrip(tb, QRCase{Content: BStr(c), Level: vl[1], Mode: 3})
			return
		}
		checkQRRoundTrip(tb, QRCase{Content: BStr(c), Level: v % 4, Mode: 0})
		mode := 3
		if qrInAlphabet(1, c) {
			mode = 1
		} else if qrInAlphabet(2, c) {
			mode = 2
		}
		checkQRRoundTrip(tb, QRCase{Content: BStr(c), Level: (v + 1) % 4, Mode: mode})
	})
}

func TestC02Twins(t *testing.T) {
	pairs := append(hashTwins("", printable, "", 16, 2), hashTwins("", "0123456789", "", 20, 2)...)
	runTwins(t, "C02", "hash-twins", pairs, func(tb TB, c []byte, v int) { checkDMRoundTrip(tb, DMCase{Content: BStr(c)}) })
}

func TestC03Twins(t *testing.T) {
	pairs := append(hashTwins("", printable, "", 16, 2), hashTwins("", "ABCDEFGHIJ 0123456789.,", "", 20, 2)...)
	runTwins(t, "C03", "hash-twins", pairs, func(tb TB, c []byte, v int) {
		checkAztecRoundTrip(tb, nil, AztecCase{Payload: BStr(c), ECC: []int{23, 33, 10}[v%3], Layers: []int{0, 0, 3}[v%3]})
	})
}

func TestC04Twins(t *testing.T) {
	pairs := append(hashTwins("", printable, "", 18, 2), hashTwins("", "0123456789", "", 30, 2)...)
	runTwins(t, "C04", "hash-twins", pairs, func(tb TB, c []byte, v int) { checkPDFRoundTrip(tb, PDFCase{Content: BStr(c), Level: v % 9}) })
}

func TestC05Twins(t *testing.T) {
	pairs := append(hashTwins("", printable, "", 12, 3), hashTwins("", "0123456789", "", 16, 2)...)
	runTwins(t, "C05", "hash-twins", pairs, func(tb TB, c []byte, v int) {
		checkCode128(tb, C128Case{Content: BStr(c), Checksum: true})
		checkCode128(tb, C128Case{Content: BStr(c), Checksum: false})
	})
}

func TestC06Twins(t *testing.T) {
	pairs := append(hashTwins("", "0123456789", "", 12, 3), hashTwins("", "0123456789", "", 7, 3)...)
	runTwins(t, "C06", "hash-twins", pairs, func(tb TB, c []byte, v int) { checkEAN(tb, EANCase{Code: BStr(c)}) })
}

func TestC07Twins(t *testing.T) {
	pairs := append(hashTwins("", basic43, "", 10, 2), hashTwins("", printable, "", 10, 2)...)
	runTwins(t, "C07", "hash-twins", pairs, func(tb TB, c []byte, v int) {
		for _, sym := range []int{39, 93} {
			for k := 0; k < 4; k++ {
				checkC39(tb, C39Case{Sym: sym, Content: BStr(c), Checksum: k&1 == 1, FullASCII: k&2 == 2})
			}
		}
	})
}

func TestC08Twins(t *testing.T) {
	cb := hashTwins("A", "0123456789-$:/.+", "B", 12, 2)
	dg := hashTwins("", "0123456789", "", 14, 2)
	runTwins(t, "C08", "hash-twins", append(cb, dg...), func(tb TB, c []byte, v int) {
		if c[0] == 'A' {
			checkC08(tb, C08Case{Kind: "codabar", Content: BStr(c)})
			return
		}
		for _, kind := range []string{"2of5", "itf", "addchecksum"} {
			checkC08(tb, C08Case{Kind: kind, Content: BStr(c)})
		}
	})
}

// qrStreamTwins: pairs of byte-mode contents of one (version, level) whose CODEWORD STREAMS (data codewords, or the
// final interleaved data+check stream) have the same 32-bit hash. A memo keyed by a digest of an intermediate
// representation (not of the content) is collided by these and by nothing else. The streams are computed with the
// reference arithmetic; the birthday search runs over ~120000 random full-capacity contents per (version, level).
func qrStreamTwins(v, l, perHash int) []twinPair {
	n := qrCapacity(v, l, qrIndicator[3])
	groups := ref.QRBlocks[v-1][l]
	stream := func(content []byte) (data, inter []byte) {
		cw := qrByteDataCodewords(v, content)
		var blocks, eccs [][]int
		pos := 0
		for _, g := range groups {
			for k := 0; k < g.Count; k++ {
				blk := cw[pos : pos+g.Data]
				pos += g.Data
				blocks = append(blocks, blk)
				eccs = append(eccs, qrRefGF.RSRemainder(blk, qrRefGF.Generator(g.Total-g.Data, 0)))
			}
		}
		for _, c := range cw {
			data = append(data, byte(c))
		}
		for i := 0; ; i++ {
			any := false
			for _, b := range blocks {
				if i < len(b) {
					inter = append(inter, byte(b[i]))
					any = true
				}
			}
			if !any {
				break
			}
		}
		for i := 0; i < len(eccs[0]); i++ {
			for _, e := range eccs {
				inter = append(inter, byte(e[i]))
			}
		}
		return
	}
	cand := func(i int) []byte {
		b := make([]byte, n)
		x := uint64(i)*0x9E3779B97F4A7C15 + uint64(v*131+l)
		for k := range b {
			x ^= x >> 29
			x *= 0xBF58476D1CE4E5B9
			x ^= x >> 32
			b[k] = "abcdefghijklmnopqrstuvwxyz0123456789/:.-_?=&"[x%44]
		}
		b[0] = 'h'
		return b
	}
	var out []twinPair
	hfs := []hashFn{hashFns[2], hashFns[0], hashFns[3], hashFns[4]} // crc32-ieee, fnv1a-32, crc32c, adler32
	type seenMap = map[uint32]int
	seenData, seenInter := make([]seenMap, len(hfs)), make([]seenMap, len(hfs))
	foundData, foundInter := make([]int, len(hfs)), make([]int, len(hfs))
	for k := range hfs {
		seenData[k], seenInter[k] = seenMap{}, seenMap{}
	}
	for i := 0; i < 160000; i++ {
		done := true
		for k := range hfs {
			if foundData[k] < perHash || foundInter[k] < perHash {
				done = false
			}
		}
		if done {
			break
		}
		c := cand(i)
		d, in := stream(c)
		for k, hf := range hfs {
			if foundData[k] < perHash {
				h := hf.fn(d)
				if j, ok := seenData[k][h]; ok {
					out = append(out, twinPair{hf.name + " of the data codewords", cand(j), c})
					foundData[k]++
				} else {
					seenData[k][h] = i
				}
			}
			if foundInter[k] < perHash {
				h := hf.fn(in)
				if j, ok := seenInter[k][h]; ok {
					out = append(out, twinPair{hf.name + " of the interleaved codeword stream", cand(j), c})
					foundInter[k]++
				} else {
					seenInter[k][h] = i
				}
			}
		}
	}
	return out
}
