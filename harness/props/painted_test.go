package props

// "Painted first results": the first barcode a process obtains for a size class belongs to the caller like any other.
// An encoder that keeps that very object (as a template for later symbols of the size, as a cache entry) hands out
// symbols that contain whatever the caller painted over it afterwards - although every single call, every history
// without painting and every concurrent workload look perfect. Each test runs in a process of its own (a part of its
// own), walks through every size class of the symbology, paints the FIRST result of the class completely through
// whatever mutators the returned value exposes (Set, SetBit), and validates the next two symbols of that class with
// the full round-trip check.

import (
	"strings"
	"testing"

	"github.com/boombuler/barcode"
	"verif/ref"
)

// paintAll overwrites every module the value lets the caller reach; reports whether it exposes a mutator at all.
func paintAll(bc barcode.Barcode, val func(i int) bool) bool {
	painted := false
	b := bc.Bounds()
	if m, ok := bc.(interface{ Set(x, y int, val bool) }); ok {
		try(func() {
			for y := 0; y < b.Dy(); y++ {
				for x := 0; x < b.Dx(); x++ {
					m.Set(x, y, val(y*b.Dx()+x))
				}
			}
		})
		painted = true
	}
	if m, ok := bc.(interface {
		SetBit(int, bool)
		Len() int
	}); ok {
		try(func() {
			for i, n := 0, m.Len(); i < n; i++ {
				m.SetBit(i, val(i))
			}
		})
		painted = true
	}
	return painted
}

type paintedClass struct {
	first  func() (barcode.Barcode, error, any)
	checks []func(t TB)
}

func runPainted(t *testing.T, prop string, classes []paintedClass) {
	st := NewStats(prop, "painted")
	defer st.Flush()
	ct := &collectTB{}
	withMutator := 0
	paint := func(i int) bool { return paintClass(classes, i) }
	// phase 1: the very first result of every size class in this process is painted before anything else happens
	mut := make([]bool, len(classes))
	for i := range classes {
		mut[i] = paint(i)
	}
	// phase 2: the next symbols of each class are validated; then the most recent result of the class is painted and
	// the class validated once more
	for i, cl := range classes {
		if ct.Failed() {
			break
		}
		if mut[i] {
			withMutator++
			st.Class("first result of a size class painted over through its exposed mutators, next symbols of the class validated")
		} else {
			st.Class("first result of a size class exposes no mutator")
		}
		preludeStart()
		preludeAdd("painted-first", PaintedStep{Prop: prop, Class: i})
		ct.guard(func() {
			for _, chk := range cl.checks {
				chk(ct)
				st.Eval()
			}
			paint(i)
			cl.checks[0](ct)
			st.Eval()
		})
		if !ct.Failed() {
			preludeStop()
		}
		st.NonTrivial(H("painted", prop, i))
	}
	st.Set("size_classes", len(classes))
	st.Set("size_classes_with_mutator", withMutator)
	if ct.Failed() {
		t.Fatalf("%s", ct.first)
	}
}

func paintedQR() []paintedClass {
	var cl []paintedClass
	for v := 1; v <= 40; v++ {
		l := v % 4
		n := qrCapacity(v, l, qrIndicator[3])
		a, b, c := fillPattern(3, int64(v), n), fillPattern(3, int64(v+100), n), fillPattern(3, int64(v+200), n-1)
		first := QRCase{Content: BStr(a), Level: l, Mode: 3}
		cl = append(cl, paintedClass{
			first: func() (barcode.Barcode, error, any) { return qrEncode(first) },
			checks: []func(TB){
				func(t TB) { checkQRRoundTrip(t, QRCase{Content: BStr(b), Level: l, Mode: 3}) },
				func(t TB) { checkQRRoundTrip(t, QRCase{Content: BStr(c), Level: l, Mode: 0}) },
				func(t TB) { checkQRRoundTrip(t, first) },
			}})
	}
	return cl
}

func paintedDM() []paintedClass {
	var cl []paintedClass
	for _, sz := range ref.DMSizes {
		a, b, c := dmFit(nil, sz.Data, 'A'), dmFit(nil, sz.Data, 'b'), dmFit([]byte(strings.Repeat("12", sz.Data/2)), sz.Data, 'x')
		first := DMCase{Content: BStr(a)}
		cl = append(cl, paintedClass{
			first: func() (barcode.Barcode, error, any) { return dmEncode(first) },
			checks: []func(TB){
				func(t TB) { checkDMRoundTrip(t, DMCase{Content: BStr(b)}) },
				func(t TB) { checkDMRoundTrip(t, DMCase{Content: BStr(c)}) },
				func(t TB) { checkDMRoundTrip(t, first) },
			}})
	}
	return cl
}

func paintedAztec() []paintedClass {
	var cl []paintedClass
	for l := -4; l <= 32; l++ {
		if l == 0 {
			continue
		}
		first := AztecCase{Payload: BStr("Aztec A"), ECC: 23, Layers: l}
		l := l
		cl = append(cl, paintedClass{
			first: func() (barcode.Barcode, error, any) { return aztecEncode(first) },
			checks: []func(TB){
				func(t TB) { checkAztecRoundTrip(t, nil, AztecCase{Payload: BStr("other 12"), ECC: 23, Layers: l}) },
				func(t TB) { checkAztecRoundTrip(t, nil, AztecCase{Payload: BStr("x\x80y"), ECC: 40, Layers: l}) },
				func(t TB) { checkAztecRoundTrip(t, nil, first) },
			}})
	}
	return cl
}

func paintedPDF() []paintedClass {
	var cl []paintedClass
	for i, n := range []int{1, 4, 9, 20, 45, 80, 150, 300, 600, 1000, 1500} {
		for _, lvl := range []int{0, 2, 5} {
			a, b := fillPattern(2, int64(n+lvl), n), fillPattern(2, int64(n+lvl+77), n)
			first := PDFCase{Content: BStr(a), Level: lvl}
			lvl := lvl
			_ = i
			cl = append(cl, paintedClass{
				first: func() (barcode.Barcode, error, any) { return pdfEncode(first) },
				checks: []func(TB){
					func(t TB) { checkPDFRoundTrip(t, PDFCase{Content: BStr(b), Level: lvl}) },
					func(t TB) { checkPDFRoundTrip(t, first) },
				}})
		}
	}
	return cl
}

var paintedBuilders = map[string]func() []paintedClass{"C01": paintedQR, "C02": paintedDM, "C03": paintedAztec, "C04": paintedPDF}

func TestC01Painted(t *testing.T) { runPainted(t, "C01", paintedQR()) }
func TestC02Painted(t *testing.T) { runPainted(t, "C02", paintedDM()) }
func TestC03Painted(t *testing.T) { runPainted(t, "C03", paintedAztec()) }
func TestC04Painted(t *testing.T) { runPainted(t, "C04", paintedPDF()) }

// PaintedStep is the replayable form of "obtain the first result of size class Class and paint it over": it is stored
// as the first step of a failing case's history.
type PaintedStep struct {
	Prop  string `json:"prop"`
	Class int    `json:"class"`
}

func paintClass(classes []paintedClass, i int) bool {
	bc, err, pv := classes[i].first()
	if pv != nil || err != nil || nilBarcode(bc) {
		return false
	}
	return paintAll(bc, func(k int) bool { return (k+i)%3 != 0 })
}

func init() {
	register("painted-first", func(t TB, c PaintedStep) {
		if b := paintedBuilders[c.Prop]; b != nil {
			if cl := b(); c.Class >= 0 && c.Class < len(cl) {
				paintClass(cl, c.Class)
			}
		}
	})
}
