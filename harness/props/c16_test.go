package props

// C16: encoders and Scale are safe for concurrent use (also as the first calls of a process)
// and leave no goroutine behind. Built with the race detector by the driver.

import (
	"encoding/json"
	"fmt"
	"runtime"
	"strings"
	"sync"
	"testing"
	"time"

	"github.com/boombuler/barcode"
	"github.com/boombuler/barcode/aztec"
	"pgregory.net/rapid"
	"verif/enc"
	"verif/ref"
)

type ConcCase struct {
	Specs      []EncSpec `json:"specs"`
	Procs      int       `json:"gomaxprocs"`
	Scale      bool      `json:"scale"`           // each goroutine also scales its result
	ColdStart  bool      `json:"cold_start"`      // run in a fresh race-instrumented process instead of this one
	Group      int       `json:"group,omitempty"` // cold start: release the calls in consecutive groups of this size (0: all at once)
	Repeat     int       `json:"repeat"`          // in-process: how many times each goroutine repeats its call
	SharedRead bool      `json:"shared_read"`     // in-process: all goroutines read (fingerprint) ONE barcode made from Specs[0]
}

// workFingerprint: what one goroutine computes.
func workFingerprint(s EncSpec, scale bool) string {
	bc, err, pv := encodeSpec(s)
	fp := enc.Fingerprint(bc, err, pv)
	if scale && err == nil && pv == nil && !nilBarcode(bc) {
		var sc barcode.Barcode
		var serr error
		spv := try(func() { sc, serr = barcode.Scale(bc, 2*bc.Bounds().Dx()+1, 2*bc.Bounds().Dy()+1) })
		fp += "/" + enc.Fingerprint(sc, serr, spv)
	}
	return fp
}

var (
	seqRefMu sync.Mutex
	seqRef   = map[string]string{}
)

func sequentialRef(s EncSpec, scale bool) string {
	key, _ := json.Marshal(s)
	k := fmt.Sprintf("%v|%s", scale, key)
	seqRefMu.Lock()
	defer seqRefMu.Unlock()
	if fp, ok := seqRef[k]; ok {
		return fp
	}
	fp := workFingerprint(s, scale)
	seqRef[k] = fp
	return fp
}

func checkC16(t TB, c ConcCase) {
	noteCase("C16", "concurrency", c)
	const P, K = "C16", "concurrency"
	n := len(c.Specs)
	want := make([]string, n)
	for i, s := range c.Specs {
		want[i] = sequentialRef(s, c.Scale && !c.ColdStart)
	}
	if c.ColdStart {
		// after the contention the same process runs the whole RS-degree pool sequentially: a cache that was
		// corrupted by racing first requests shows in later, purely sequential calls
		args := []string{"concurrent", fmt.Sprint(c.Procs)}
		if c.Group > 0 {
			args = append(args, fmt.Sprint(c.Group))
		}
		out, stderr, code, err := runOneshot2(true, c.Specs, rsPool, args...)
		switch {
		case err != nil || code == 2:
			t.Fatalf("INFRASTRUCTURE: cannot run the cold-start helper: %v (exit %d) %s", err, code, tail(stderr, 300))
		case code == 66 || strings.Contains(stderr, "WARNING: DATA RACE"):
			failf(t, P, K, c, "race detector report in a fresh process whose first library calls are %d concurrent encodes:\n%s", n, tail(stderr, 2500))
		case code == 3:
			failf(t, P, K, c, "deadlock: concurrent first calls did not return within the watchdog: %s", tail(stderr, 800))
		case code != 0:
			failf(t, P, K, c, "fresh process with %d concurrent first calls died with exit code %d:\n%s", n, code, tail(stderr, 2500))
		}
		for i := range c.Specs {
			if out.Fingerprints[i] != want[i] {
				failf(t, P, K, c, "cold start: concurrent call %d (%s) returned a different barcode than the same call alone", i, c.Specs[i].Label())
			}
		}
		for i, sp := range rsPool {
			if i < len(out.AfterFingerprints) && out.AfterFingerprints[i] != sequentialRef(sp, false) {
				failf(t, P, K, c, "cold start: after the concurrent first calls, a sequential call (%s, RS degree class %d) in the same process returned a different barcode than the same call alone", sp.Label(), rsDegree(sp))
			}
		}
		if out.GoroutinesAfter > out.GoroutinesBefore {
			failf(t, P, K, c, "cold start: %d goroutines before the calls, %d still alive after they returned", out.GoroutinesBefore, out.GoroutinesAfter)
		}
		return
	}
	old := runtime.GOMAXPROCS(c.Procs)
	defer runtime.GOMAXPROCS(old)
	if c.SharedRead {
		checkSharedRead(t, c)
		return
	}
	base := runtime.NumGoroutine()
	got := make([][]string, n)
	start := make(chan struct{})
	var wg sync.WaitGroup
	rep := c.Repeat
	if rep < 1 {
		rep = 1
	}
	for i := range c.Specs {
		wg.Add(1)
		go func(i int) {
			defer wg.Done()
			<-start
			for r := 0; r < rep; r++ {
				got[i] = append(got[i], workFingerprint(c.Specs[i], c.Scale))
			}
		}(i)
	}
	close(start)
	done := make(chan struct{})
	go func() { wg.Wait(); close(done) }()
	select {
	case <-done:
	case <-time.After(90 * time.Second):
		failf(t, P, K, c, "deadlock: %d concurrent calls did not return within 90 s (a burst normally takes a second or two)", n)
	}
	for i := range c.Specs {
		for r, fp := range got[i] {
			if fp != want[i] {
				failf(t, P, K, c, "concurrent call %d (%s), repetition %d, returned a different barcode than the same call alone", i, c.Specs[i].Label(), r)
			}
		}
	}
	// every goroutine the library started must be gone (bounded settle loop)
	left := runtime.NumGoroutine()
	for i := 0; i < 1200 && left > base; i++ {
		time.Sleep(5 * time.Millisecond)
		left = runtime.NumGoroutine()
	}
	if left > base {
		buf := make([]byte, 1<<16)
		buf = buf[:runtime.Stack(buf, true)]
		failf(t, P, K, c, "%d goroutines before the workload, %d still alive 6 s after all calls returned:\n%s", base, left, tail(string(buf), 3000))
	}
}

// checkSharedRead: one barcode (optionally scaled, i.e. a fresh wrapper object nobody has read yet) is read by all
// goroutines at once; every reader must see exactly the pixels and accessors a lone reader sees.
func checkSharedRead(t TB, c ConcCase) {
	const P, K = "C16", "concurrency"
	s := c.Specs[0]
	mk := func() barcode.Barcode {
		bc, err, pv := encodeSpec(s)
		if pv != nil || err != nil || nilBarcode(bc) {
			return nil
		}
		if c.Scale {
			var sc barcode.Barcode
			var serr error
			if spv := try(func() { sc, serr = barcode.Scale(bc, 2*bc.Bounds().Dx()+3, 2*bc.Bounds().Dy()+1) }); spv != nil || serr != nil {
				return nil
			}
			return sc
		}
		return bc
	}
	lone := mk()
	if lone == nil {
		return
	}
	want := enc.Fingerprint(lone, nil, nil)
	shared := mk()
	n := len(c.Specs)
	got := make([]string, n)
	start := make(chan struct{})
	var wg sync.WaitGroup
	for i := 0; i < n; i++ {
		wg.Add(1)
		go func(i int) {
			defer wg.Done()
			<-start
			var fp string
			pv := try(func() { fp = enc.Fingerprint(shared, nil, nil) })
			if pv != nil {
				fp = fmt.Sprint(pv)
			}
			got[i] = fp
		}(i)
	}
	close(start)
	done := make(chan struct{})
	go func() { wg.Wait(); close(done) }()
	select {
	case <-done:
	case <-time.After(180 * time.Second):
		failf(t, P, K, c, "deadlock: %d concurrent readers of one barcode did not return within 180 s", n)
	}
	for i := range got {
		if got[i] != want {
			failf(t, P, K, c, "reader %d of %d concurrent readers of one %s barcode (scaled=%v) saw different pixels/accessors than a lone reader: %s", i, n, s.Label(), c.Scale, tail(got[i], 200))
		}
	}
}

func tail(s string, n int) string {
	if len(s) > n {
		return "…" + s[len(s)-n:]
	}
	return s
}

func init() {
	register("concurrency", checkC16)
	// a race report has no generated case to replay: re-run a fixed heavy workload instead
	register("race-detector", func(t TB, _ map[string]any) {
		for _, cold := range []bool{false, true} {
			checkC16(t, ConcCase{Specs: append(append([]EncSpec{}, rsPool[:16]...), errorPathSpecs...), Procs: 8, Scale: true, ColdStart: cold, Repeat: 2})
		}
	})
}

// one or two ordinary calls per entry-point family
var familyFirstCalls = []EncSpec{
	{Fam: "qr", Content: BStr("HELLO WORLD"), A: 1, B: 2}, {Fam: "qr", Content: BStr("0123456789"), A: 0, B: 1}, {Fam: "qr", Content: BStr("hello"), A: 3, B: 0},
	{Fam: "datamatrix", Content: BStr("Data Matrix 12")}, {Fam: "aztec", Content: BStr("Aztec Code 123"), A: 33}, {Fam: "aztec", Content: BStr("binary \x80\x81 data"), A: 23, B: 9},
	{Fam: "aztec", Content: BStr("TWENTY-THREE LAYERS"), A: 10, B: 23}, {Fam: "pdf417", Content: BStr("PDF417 sample, 123456789012345"), A: 2},
	{Fam: "code128", Content: BStr("Code-128 ab\x0112")}, {Fam: "code128nc", Content: BStr("NoCheck34")}, {Fam: "code39", Content: BStr("CODE 39"), F1: true},
	{Fam: "code39", Content: BStr("full Ascii!"), F2: true}, {Fam: "code93", Content: BStr("CODE93"), F1: true}, {Fam: "code93", Content: BStr("full~93"), F1: true, F2: true},
	{Fam: "codabar", Content: BStr("A12-3$B")}, {Fam: "ean", Content: BStr("1234567")}, {Fam: "ean", Content: BStr("590123412345")},
	{Fam: "2of5", Content: BStr("12345")}, {Fam: "itf", Content: BStr("123456")},
}

// sizeClassSpecs: two different contents for every size class of every 2D symbology (40 QR versions, 24 DataMatrix
// sizes, 36 Aztec sizes, 9 PDF417 levels), same-class calls adjacent: state that is built lazily PER SIZE CLASS
// (interleaving tables of one symbol size, field tables of one word size, factor tables of one level) is only
// raced for by first calls of that very class.
func sizeClassSpecs(k int) []EncSpec {
	var out []EncSpec
	for v := 1; v <= 40; v++ {
		if !thorough() && k > 2 && v > 10 && v%4 != 0 { // quick tier: every version up to 10, then every fourth
			continue
		}
		l := v % 4
		n := qrCapacity(v, l, qrIndicator[3])
		for j := 0; j < k; j++ {
			a := fillPattern(3, int64(1000*j+v), n-j%2)
			a[0] = byte(0x80 + j)
			out = append(out, EncSpec{Fam: "qr", Content: BStr(a), A: l, B: 3})
		}
	}
	for _, sz := range ref.DMSizes {
		for j := 0; j < k; j++ {
			out = append(out, EncSpec{Fam: "datamatrix", Content: BStr(dmFit([]byte{byte('a' + j)}, max(sz.Data-j%2, 1), byte('A'+j)))})
		}
	}
	for l := -4; l <= 32; l++ {
		if l == 0 {
			continue
		}
		for j := 0; j < k; j++ {
			out = append(out, EncSpec{Fam: "aztec", Content: BStr(fmt.Sprintf("Aztec %d/%d%s", l, j, []string{"", "\x80"}[j%2])), A: 23, B: l})
		}
	}
	for l := 0; l <= 8; l++ {
		for j := 0; j < k; j++ {
			out = append(out, EncSpec{Fam: "pdf417", Content: BStr(fmt.Sprintf("PDF417 level %d, call %d, 1234567890123456%s", l, j, []string{"", "\xfe\xff"}[j%2])), A: l})
		}
	}
	return out
}

// calls whose error paths start producer goroutines inside the QR encoder
var errorPathSpecs = []EncSpec{
	{Fam: "qr", Content: BStr("abc"), A: 0, B: 2}, {Fam: "qr", Content: BStr("ABC\xff"), A: 1, B: 2}, {Fam: "qr", Content: BStr("AB!"), A: 2, B: 2},
	{Fam: "qr", Content: BStr("12a"), A: 3, B: 1}, {Fam: "qr", Content: BStr(strings.Repeat("A", 5000)), A: 3, B: 2}, {Fam: "qr", Content: BStr("A\xc3\xa9B"), A: 0, B: 0},
	{Fam: "qr", Content: BStr("HELLO WORLD"), A: 1, B: 2}, {Fam: "qr", Content: BStr("HELLO WORLD"), A: 1, B: 0},
}

// TestC16LeakSweep: one call at a time, every QR numeric / alphanumeric / auto length up to a bound x 4 levels
// (the producer/consumer pipelines of the QR encoder must always be drained), plus the error paths and one
// call per other family; after every call the goroutine count must return to its previous value.
func TestC16LeakSweep(t *testing.T) {
	st := NewStats("C16", "leak-sweep")
	defer st.Flush()
	maxN := 330
	if thorough() {
		maxN = 1800
	}
	base := runtime.NumGoroutine()
	shards, me, seq := envInt("VERIF_SHARDS", 1), shard(), 0
	check := func(s EncSpec) {
		seq++
		if seq%shards != me {
			return
		}
		encodeSpec(s)
		st.Eval()
		left := runtime.NumGoroutine()
		for i := 0; i < 2500 && left > base; i++ {
			time.Sleep(2 * time.Millisecond)
			left = runtime.NumGoroutine()
		}
		if left > base {
			buf := make([]byte, 1<<16)
			buf = buf[:runtime.Stack(buf, true)]
			failf(t, "C16", "goroutine-leak", s, "%d goroutines before the call, %d still alive 5 s after it returned:\n%s", base, left, tail(string(buf), 2500))
		}
	}
	for n := 0; n <= maxN; n++ {
		for l := 0; l < 4; l++ {
			check(EncSpec{Fam: "qr", Content: BStr(fillPattern(1, int64(n), n)), A: l, B: 1})
			check(EncSpec{Fam: "qr", Content: BStr(fillPattern(2, int64(n), n)), A: l, B: 2})
			if n%3 == 0 {
				check(EncSpec{Fam: "qr", Content: BStr(fillPattern(2, int64(n), n)), A: l, B: 0})
				check(EncSpec{Fam: "qr", Content: BStr(fillPattern(1, int64(n), n)), A: l, B: 0})
			}
		}
		st.NonTrivialN(8)
	}
	// capacity boundaries of every version (numeric / alphanumeric), where terminator and padding meet
	for v := 1; v <= 40; v++ {
		for l := 0; l < 4; l++ {
			for mode := 1; mode <= 2; mode++ {
				cp := qrCapacity(v, l, qrIndicator[mode])
				for d := 0; d <= 3 && cp-d >= 0; d++ {
					if v > 12 && !thorough() && d > 1 {
						continue
					}
					check(EncSpec{Fam: "qr", Content: BStr(fillPattern(mode, int64(v), cp-d)), A: l, B: mode})
					st.NonTrivialN(1)
				}
			}
		}
	}
	for _, s := range errorPathSpecs {
		check(s)
	}
	for _, s := range rsPool {
		check(s)
	}
	for _, h := range hostileStrings {
		for _, fam := range allFamilies {
			check(EncSpec{Fam: fam, Content: BStr(h), A: 1, B: 2})
		}
	}
	st.Sample("leak-sweep", EncSpec{Fam: "qr", Content: BStr("00000000000000000000000000000000000000000"), A: 0, B: 1})
	st.Set("sweep_domain", fmt.Sprintf("QR numeric/alphanumeric lengths 0..%d x 4 levels (+Auto every 3rd), capacity-0..3 of every version, error paths, RS pool, hostile constants x 12 families", maxN))
}

func init() {
	register("goroutine-leak", func(t TB, s EncSpec) {
		base := runtime.NumGoroutine()
		encodeSpec(s)
		left := runtime.NumGoroutine()
		for i := 0; i < 2500 && left > base; i++ {
			time.Sleep(2 * time.Millisecond)
			left = runtime.NumGoroutine()
		}
		if left > base {
			t.Fatalf("%d goroutines before the call, %d still alive after it returned", base, left)
		}
	})
}

// TestC16Bursts: bursts of 8 x NumCPU goroutines that all call the SAME encoder family at once (contention inside
// one package: semaphores, pools, pipelines), several bursts per family, with a deadlock watchdog per burst.
func TestC16Bursts(t *testing.T) {
	st := NewStats("C16", "bursts")
	defer st.Flush()
	n := 8 * runtime.NumCPU()
	if n < 64 {
		n = 64
	}
	bursts := 2
	if thorough() {
		bursts = 12
	}
	byFam := map[string][]EncSpec{}
	for _, s := range familyFirstCalls {
		byFam[s.Fam] = append(byFam[s.Fam], s)
	}
	byFam["qr"] = append(byFam["qr"], errorPathSpecs...)
	byFam["qr"] = append(byFam["qr"], rsPool[:10]...)
	// many different medium-sized QR symbols (versions ~4..14): results that depend on how busy the encoder is
	// (work split over helper goroutines, shared scoring state) show as a different symbol than when encoded alone
	for i := 0; i < 48; i++ {
		n := 60 + (i*37)%340
		byFam["qr"] = append(byFam["qr"], EncSpec{Fam: "qr", Content: BStr(fillPattern(2+i%2, int64(1000+i), n)), A: i % 4, B: []int{2, 3, 0}[i%3]})
	}
	for i := 0; i < 16; i++ {
		byFam["datamatrix"] = append(byFam["datamatrix"], EncSpec{Fam: "datamatrix", Content: BStr(fillPattern(2, int64(2000+i), 150+(i*97)%900))})
		byFam["aztec"] = append(byFam["aztec"], EncSpec{Fam: "aztec", Content: BStr(fillPattern(2+i%2, int64(3000+i), 40+(i*53)%500)), A: 23 + i%20})
		byFam["pdf417"] = append(byFam["pdf417"], EncSpec{Fam: "pdf417", Content: BStr(fillPDF(i%4, int64(4000+i), 30+(i*71)%600)), A: i % 6})
	}
	for _, fam := range allFamilies {
		pool := byFam[fam]
		if len(pool) == 0 {
			continue
		}
		for b := 0; b < bursts; b++ {
			c := ConcCase{Procs: runtime.NumCPU(), Repeat: 1, Scale: b%2 == 1}
			nn := n
			if fam != "qr" && !thorough() {
				nn = n / 2 // the semaphore-style defects seen so far needed > 2 x NumCPU callers only for QR
			}
			for i := 0; i < nn; i++ {
				c.Specs = append(c.Specs, pool[(i+b)%len(pool)])
			}
			checkC16(t, c)
			st.Eval()
			st.NonTrivial(H("burst", fam, b))
			st.Class("burst " + fam)
		}
		// the same burst under GOMAXPROCS values that do not divide typical work splits (3, 5, 6, 7)
		if is2D(fam) {
			for _, procs := range []int{3, 5, 6, 7} {
				c := ConcCase{Procs: procs, Repeat: 1}
				for i := 0; i < 24; i++ {
					c.Specs = append(c.Specs, pool[(i+procs)%len(pool)])
				}
				checkC16(t, c)
				st.Eval()
				st.NonTrivial(H("burst-procs", fam, procs))
				st.Class(fmt.Sprintf("burst under GOMAXPROCS %d", procs))
			}
		}
		// many concurrent readers of ONE freshly made barcode of this family (raw and scaled)
		for b, sp := range pool {
			if b >= 2 {
				break
			}
			for _, scaled := range []bool{false, true} {
				c := ConcCase{Procs: runtime.NumCPU(), SharedRead: true, Scale: scaled, Specs: make([]EncSpec, 32)}
				for i := range c.Specs {
					c.Specs[i] = sp
				}
				checkC16(t, c)
				st.Eval()
				st.NonTrivial(H("shared-read", fam, b, scaled))
				st.Class("concurrent readers of one barcode")
			}
		}
	}
	// concurrent calls whose inputs are adjacent sub-slices of ONE caller-owned buffer (records of a file read into
	// memory): an encoder that writes through its input slice, or past its end into spare capacity, races with the
	// neighbour's call and changes the neighbour's input
	for round := 0; round < bursts; round++ {
		checkSharedInput(t, SharedInputCase{Round: round, Records: 64, RecordLen: 24})
		st.Eval()
		st.NonTrivial(H("shared-input", round))
		st.Class("concurrent encodes of adjacent sub-slices of one input buffer")
	}
	// far more simultaneous callers than any plausible pool / free list / arena size (64, 128, 256): 600 goroutines
	// making small calls of one size class of one 2D family
	for _, fam := range []string{"qr", "datamatrix", "aztec", "pdf417"} {
		c := ConcCase{Procs: runtime.NumCPU(), Repeat: 2}
		for i := 0; i < 600; i++ {
			// medium-sized symbols: each call stays inside the encoder long enough to be overtaken by hundreds of others
			sp := EncSpec{Fam: fam, Content: BStr(fmt.Sprintf("crowd %d ", i) + string(fillPattern(2, int64(i), 400)))}
			switch fam {
			case "qr":
				sp.A, sp.B = 0, 0
			case "aztec":
				sp.A = 23
			case "pdf417":
				sp.A = 1
			}
			c.Specs = append(c.Specs, sp)
		}
		checkC16(t, c)
		st.Eval()
		st.NonTrivial(H("crowd", fam))
		st.Class("600 simultaneous callers of one family")
	}
	// many goroutines make the SAME call at the same moment and keep their results; one of them then paints over its
	// own symbol through whatever mutator it exposes (1D symbols expose the BitList methods, QR symbols Set): the
	// other callers' symbols must not change (results of coalesced / de-duplicated calls sharing their storage)
	for _, sp := range familyFirstCalls {
		checkIdenticalThenPaint(t, IdenticalCase{Spec: sp, Goroutines: 48})
		st.Eval()
		st.NonTrivial(H("identical", sp.Fam, sp.Content))
		st.Class("identical concurrent calls, one result painted over")
	}
	st.Sample("burst", map[string]any{"goroutines": n, "family": "qr", "bursts": bursts})
}

func genConcCase(t *rapid.T) ConcCase {
	c := ConcCase{Procs: rapid.SampledFrom([]int{1, 2, 4, 16, 3, 5, 6, 7}).Draw(t, "procs"), Scale: rapid.Bool().Draw(t, "scale"),
		ColdStart: rapid.IntRange(0, 3).Draw(t, "cold") == 0, Repeat: rapid.IntRange(1, 3).Draw(t, "repeat")}
	if !c.ColdStart && rapid.IntRange(0, 4).Draw(t, "shared") == 0 {
		c.SharedRead = true
	}
	n := rapid.SampledFrom([]int{2, 3, 4, 8, 16, 32, 64}).Draw(t, "goroutines")
	kind := rapid.IntRange(0, 3).Draw(t, "wkind")
	for i := 0; i < n; i++ {
		switch {
		case kind == 0 || (kind == 1 && i%2 == 0):
			c.Specs = append(c.Specs, rsPool[rapid.IntRange(0, len(rsPool)-1).Draw(t, "pool")])
		case kind == 2 && i%3 == 0:
			c.Specs = append(c.Specs, errorPathSpecs[rapid.IntRange(0, len(errorPathSpecs)-1).Draw(t, "errpath")])
		case kind == 3 && i%2 == 0:
			// QR contents at / next to a capacity boundary (terminator and padding edge cases of the pipelines)
			q := genQRCase(t)
			if len(q.Content) > 600 {
				q.Content = q.Content[:600]
			}
			c.Specs = append(c.Specs, EncSpec{Fam: "qr", Content: q.Content, A: q.Level, B: q.Mode})
		default:
			s := genEncSpec(t, rapid.SampledFrom([]int{0, 0, 1}).Draw(t, "size"))
			if rapid.IntRange(0, 3).Draw(t, "col") == 0 {
				s.Scheme = genScheme(t)
			}
			c.Specs = append(c.Specs, s)
		}
	}
	if c.SharedRead {
		// the barcode all goroutines read: any family, plain or coloured
		c.Specs[0] = genEncSpec(t, 0)
		if rapid.Bool().Draw(t, "sharedcol") {
			c.Specs[0].Scheme = genScheme(t)
		}
	}
	return c
}

func TestC16Rapid(t *testing.T) {
	st := NewStats("C16", "rapid")
	runRapid(t, st, func(rt *rapid.T) {
		c := genConcCase(rt)
		checkC16(rt, c)
		st.Class(fmt.Sprintf("goroutines %d", len(c.Specs)))
		st.Class(fmt.Sprintf("GOMAXPROCS %d", c.Procs))
		if c.SharedRead {
			st.Class("concurrent readers of one barcode")
		}
		if c.ColdStart {
			st.Class("cold start in a fresh race-instrumented process")
		} else {
			st.Class("in-process")
		}
		for _, s := range c.Specs {
			st.Cover("families", s.Fam)
		}
		b, _ := json.Marshal(c)
		st.NonTrivial(H(b))
		if len(c.Specs) <= 3 {
			st.Sample("workload", c)
		}
	})
}

// TestC16ColdStart: fixed cold-start workloads: the whole pool of distinct RS degrees as the very
// first, simultaneous calls of fresh processes, for each GOMAXPROCS value, several times.
func TestC16ColdStart(t *testing.T) {
	st := NewStats("C16", "cold-start")
	defer st.Flush()
	ct := &collectTB{}
	var cases []ConcCase
	rounds := 2
	if thorough() {
		rounds = 12
	}
	for r := 0; r < rounds; r++ {
		for _, p := range []int{1, 2, 4, 16} {
			specs := append([]EncSpec{}, rsPool...)
			// rotate so that different calls race for the first cache extension
			k := (r*7 + p) % len(specs)
			specs = append(specs[k:], specs[:k]...)
			cases = append(cases, ConcCase{Specs: specs, Procs: p, ColdStart: true})
			// only the lower / only every third degree concurrently, the rest afterwards (sequential phase)
			cases = append(cases, ConcCase{Specs: append([]EncSpec{}, rsPool[:len(rsPool)/3+r%5]...), Procs: p, ColdStart: true})
			var third []EncSpec
			for i := r % 3; i < len(rsPool); i += 3 {
				third = append(third, rsPool[i], rsPool[i])
			}
			cases = append(cases, ConcCase{Specs: third, Procs: p, ColdStart: true})
			cases = append(cases, ConcCase{Specs: append(append([]EncSpec{}, errorPathSpecs...), specs[:8]...), Procs: p, ColdStart: true})
			// every family's first calls of the process overlap (lazily built tables of any package)
			var fam []EncSpec
			for k := 0; k < 4; k++ {
				for _, b := range familyFirstCalls {
					x := b
					if k%2 == 1 && len(x.Content) > 1 && x.Fam != "ean" && x.Fam != "itf" && x.Fam != "codabar" {
						x.Content = x.Content[:len(x.Content)-1]
					}
					fam = append(fam, x)
				}
			}
			cases = append(cases, ConcCase{Specs: fam, Procs: p, ColdStart: true})
			// first calls of every size class of every 2D symbology overlap
			// all at once (two calls per class), and one class at a time (four calls per class, released together)
			if p == 4 && (thorough() || r == 0) {
				sc := sizeClassSpecs(2)
				k := (r * 31) % len(sc) &^ 1
				cases = append(cases, ConcCase{Specs: append(append([]EncSpec{}, sc[k:]...), sc[:k]...), Procs: p, ColdStart: true})
			}
			if p == 16 && (thorough() || r == 0) {
				cases = append(cases, ConcCase{Specs: sizeClassSpecs(4), Procs: p, ColdStart: true, Group: 4})
			}
		}
	}
	parallelFor(len(cases), 4, func(i int) {
		if ct.Failed() {
			return
		}
		ct.guard(func() {
			checkC16(ct, cases[i])
			st.Eval()
			b, _ := json.Marshal(cases[i])
			st.NonTrivial(H(b, i))
			st.Class(fmt.Sprintf("cold start GOMAXPROCS %d", cases[i].Procs))
		})
	})
	st.Sample("cold-start", map[string]any{"goroutines": len(rsPool), "gomaxprocs": 4, "calls": "one QR/DataMatrix call per distinct Reed-Solomon degree"})
	if ct.Failed() {
		t.Fatalf("%s", ct.first)
	}
}

// SharedInputCase: Records goroutines call aztec.Encode concurrently, each on its own RecordLen-byte sub-slice of one buffer.
type SharedInputCase struct {
	Round     int `json:"round"`
	Records   int `json:"records"`
	RecordLen int `json:"record_len"`
}

const sharedInputAlphabet = "ABCDEFGHIJ0123456789 abc.,:\r\n\x80"

func checkSharedInput(t TB, c SharedInputCase) {
	noteCase("C16", "shared-input", c)
	recLen, recs := c.RecordLen, c.Records
	shared := make([]byte, recLen*recs)
	for i := range shared {
		shared[i] = sharedInputAlphabet[(i*7+i/recLen+c.Round)%len(sharedInputAlphabet)]
	}
	orig := append([]byte(nil), shared...)
	want := make([]string, recs)
	for i := range want {
		rec := append([]byte(nil), orig[i*recLen:(i+1)*recLen]...)
		bc, err := aztec.Encode(rec, 23, 0)
		want[i] = enc.Fingerprint(bc, err, nil)
	}
	got := make([]string, recs)
	start := make(chan struct{})
	var wg sync.WaitGroup
	for i := 0; i < recs; i++ {
		wg.Add(1)
		go func(i int) {
			defer wg.Done()
			<-start
			bc, err := aztec.Encode(shared[i*recLen:(i+1)*recLen], 23, 0) // capacity reaches into the following records
			got[i] = enc.Fingerprint(bc, err, nil)
		}(i)
	}
	close(start)
	wg.Wait()
	for i := range got {
		if got[i] != want[i] {
			failf(t, "C16", "shared-input", c, "record %d of a shared input buffer, encoded while its neighbours were being encoded, gives a different barcode than the same bytes alone", i)
		}
	}
	if string(shared) != string(orig) {
		failf(t, "C16", "shared-input", c, "the callers' shared input buffer was modified by the concurrent encodes")
	}
}

func init() { register("shared-input", func(t TB, c SharedInputCase) { checkSharedInput(t, c) }) }

// IdenticalCase: Goroutines goroutines make the same call at once; afterwards result 0 is painted over.
type IdenticalCase struct {
	Spec       EncSpec `json:"spec"`
	Goroutines int     `json:"goroutines"`
}

func checkIdenticalThenPaint(t TB, c IdenticalCase) {
	noteCase("C16", "identical-calls", c)
	want := sequentialRef(c.Spec, false)
	for round := 0; round < 6; round++ {
		res := make([]barcode.Barcode, c.Goroutines)
		start := make(chan struct{})
		var wg sync.WaitGroup
		for i := range res {
			wg.Add(1)
			go func(i int) {
				defer wg.Done()
				<-start
				for spin := 0; spin < 3; spin++ { // several tries to overlap inside the encoder
					bc, err, pv := encodeSpec(c.Spec)
					if err == nil && pv == nil && !nilBarcode(bc) {
						res[i] = bc
					}
				}
			}(i)
		}
		close(start)
		wg.Wait()
		if res[0] == nil {
			return
		}
		b := res[0].Bounds()
		painted := false
		try(func() {
			if m, ok := res[0].(interface{ SetBit(int, bool) }); ok {
				for k := 0; k < b.Dx()*b.Dy(); k++ {
					m.SetBit(k, k%3 == 0)
				}
				painted = true
			}
			if m, ok := res[0].(interface{ Set(x, y int, val bool) }); ok {
				for k := 0; k < b.Dx(); k++ {
					m.Set(k, k%b.Dy(), k%2 == 0)
					m.Set(k, 0, true)
				}
				painted = true
			}
		})
		if !painted {
			return
		}
		for i := 1; i < len(res); i++ {
			if res[i] == nil {
				continue
			}
			if fp := enc.Fingerprint(res[i], nil, nil); fp != want {
				failf(t, "C16", "identical-calls", c, "round %d: after caller 0 painted over its own symbol, the symbol returned to caller %d by a simultaneous identical call is no longer the barcode the call returns alone", round, i)
			}
		}
	}
}

func init() {
	register("identical-calls", func(t TB, c IdenticalCase) { checkIdenticalThenPaint(t, c) })
}
