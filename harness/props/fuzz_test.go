package props

// Native Go fuzz targets (thorough tier only; coverage-guided, cannot be pinned to a seed: the
// saved failing input is the reproducible unit and is converted into a normal replay file by failf).

import (
	"testing"
)

// decodeFuzzSpec turns fuzzer bytes into one encoder call: byte 0 family, bytes 1..3 parameters,
// rest content. Structured so that mutations reach encoder logic rather than dying in validation.
func decodeFuzzSpec(data []byte) EncSpec {
	if len(data) < 4 {
		return EncSpec{Fam: "qr"}
	}
	fams := append(append([]string{}, allFamilies...), "addchecksum")
	s := EncSpec{Fam: fams[int(data[0])%len(fams)], Content: BStr(append([]byte(nil), data[4:]...))}
	switch s.Fam {
	case "qr":
		s.A, s.B = int(data[1])%4, int(data[2])%4
	case "pdf417":
		s.A = int(data[1]) % 12
	case "aztec":
		s.A = int(data[1]) * 2
		s.B = int(int8(data[2])) % 40
	case "code39", "code93":
		s.F1, s.F2 = data[1]&1 == 1, data[2]&1 == 1
	}
	return s
}

func fuzzSeeds(f *testing.F) {
	for i, h := range hostileStrings {
		f.Add(append([]byte{byte(i), byte(i * 7), byte(i * 13), 0}, h...))
	}
	for fam := 0; fam < 13; fam++ {
		f.Add(append([]byte{byte(fam), 1, 2, 0}, "HELLO WORLD 1234567890 hello, world. \r\n\x80\xff"...))
		f.Add(append([]byte{byte(fam), 3, 3, 0}, "12345670"...))
		f.Add(append([]byte{byte(fam), 0, 0, 0}, "A123-4$B"...))
	}
}

// FuzzC10: total, panic-free, exact acceptance at every entry point.
func FuzzC10(f *testing.F) {
	fuzzSeeds(f)
	f.Fuzz(func(t *testing.T, data []byte) {
		if len(data) > 4000 {
			return
		}
		checkC10(t, nil, decodeFuzzSpec(data))
	})
}

// Round-trip targets, one per property so that a failure is reported under the right id.

func FuzzC01(f *testing.F) {
	fuzzSeeds(f)
	f.Fuzz(func(t *testing.T, data []byte) {
		if len(data) < 4 || len(data) > 3000 {
			return
		}
		checkQRRoundTrip(t, QRCase{Content: BStr(append([]byte(nil), data[4:]...)), Level: int(data[1]) % 4, Mode: int(data[2]) % 4})
	})
}

func FuzzC02(f *testing.F) {
	fuzzSeeds(f)
	f.Fuzz(func(t *testing.T, data []byte) {
		if len(data) > 3200 {
			return
		}
		checkDMRoundTrip(t, DMCase{Content: BStr(append([]byte(nil), data...))})
	})
}

func FuzzC03(f *testing.F) {
	fuzzSeeds(f)
	f.Fuzz(func(t *testing.T, data []byte) {
		if len(data) < 4 || len(data) > 2500 {
			return
		}
		layers := int(int8(data[2])) % 36
		if data[3]&1 == 0 {
			layers = 0
		}
		checkAztecRoundTrip(t, nil, AztecCase{Payload: BStr(append([]byte(nil), data[4:]...)), ECC: int(data[1]) % 120, Layers: layers})
	})
}

func FuzzC04(f *testing.F) {
	fuzzSeeds(f)
	f.Fuzz(func(t *testing.T, data []byte) {
		if len(data) < 4 || len(data) > 2500 {
			return
		}
		checkPDFRoundTrip(t, PDFCase{Content: BStr(append([]byte(nil), data[4:]...)), Level: int(data[1]) % 9})
	})
}

func FuzzC05(f *testing.F) {
	fuzzSeeds(f)
	f.Fuzz(func(t *testing.T, data []byte) {
		if len(data) < 4 || len(data) > 400 {
			return
		}
		checkCode128(t, C128Case{Content: BStr(append([]byte(nil), data[4:]...)), Checksum: data[1]&1 == 0})
	})
}
