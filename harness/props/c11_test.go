package props

// C11: rendering contract: bounds, two colours, colour scheme, metadata, content.

import (
	"fmt"
	"image"
	"image/color"
	"testing"

	"github.com/boombuler/barcode"
	"pgregory.net/rapid"
	"verif/ref"
)

// the documented kind names, as literals (not the library's constants: a changed constant must be noticed)
var famKinds = map[string]string{
	"qr": "QR Code", "datamatrix": "DataMatrix", "aztec": "Aztec", "pdf417": "PDF417",
	"code128": "Code 128", "code128nc": "Code 128", "code39": "Code 39", "code93": "Code 93",
	"codabar": "Codabar", "2of5": "2 of 5", "itf": "2 of 5 (interleaved)",
}

// black on white in the 16-bit gray model, as literals: what the plain Encode functions must render
var plainScheme = barcode.ColorScheme{Model: color.Gray16Model, Background: color.White, Foreground: color.Black}

// pattern reads the boolean module pattern of bc under the given scheme, insisting that every
// pixel is exactly the scheme's foreground or background.
func pattern(bc barcode.Barcode, cs barcode.ColorScheme) ([][]bool, error) {
	probe := probeBeforeBounds(bc)
	b := bc.Bounds()
	if err := probe.agrees(bc); err != nil {
		return nil, err
	}
	if b.Min != (image.Point{}) || b.Dx() <= 0 || b.Dy() <= 0 {
		return nil, fmt.Errorf("bounds %v do not start at (0,0) or are empty", b)
	}
	out := make([][]bool, b.Dy())
	for y := range out {
		row := make([]bool, b.Dx())
		for x := range row {
			switch px := bc.At(x, y); {
			case sameValue(px, cs.Foreground):
				row[x] = true
			case sameValue(px, cs.Background):
			default:
				return nil, fmt.Errorf("pixel (%d,%d) is %#v, neither foreground %#v nor background %#v of the scheme in force", x, y, px, cs.Foreground, cs.Background)
			}
		}
		out[y] = row
	}
	return out, nil
}

func samePattern(a, b [][]bool) bool {
	if len(a) != len(b) {
		return false
	}
	for y := range a {
		if len(a[y]) != len(b[y]) {
			return false
		}
		for x := range a[y] {
			if a[y][x] != b[y][x] {
				return false
			}
		}
	}
	return true
}

// checkRender verifies one barcode against the scheme that must be in force; returns the pattern.
func checkRender(t TB, c EncSpec, bc barcode.Barcode, cs barcode.ColorScheme, what string) [][]bool {
	const P, K = "C11", "rendering"
	var pat [][]bool
	var perr error
	if pv := try(func() { pat, perr = pattern(bc, cs) }); pv != nil {
		failf(t, P, K, c, "%s: reading pixels: %v", what, pv)
	}
	if perr != nil {
		failf(t, P, K, c, "%s: %v", what, perr)
	}
	var aerr error
	if pv := try(func() { aerr = accessorsAgree(bc) }); pv != nil {
		failf(t, P, K, c, "%s: reading pixels through RGBA64At / image/draw: %v", what, pv)
	}
	if aerr != nil {
		failf(t, P, K, c, "%s: %v", what, aerr)
	}
	if m := bc.ColorModel(); !sameValue(m, cs.Model) {
		failf(t, P, K, c, "%s: ColorModel() is not the model of the scheme in force", what)
	}
	col, ok := bc.(barcode.BarcodeColor)
	if !ok {
		failf(t, P, K, c, "%s: barcode does not expose ColorScheme()", what)
	}
	if got := col.ColorScheme(); !sameValue(got.Model, cs.Model) || !sameValue(got.Foreground, cs.Foreground) || !sameValue(got.Background, cs.Background) {
		failf(t, P, K, c, "%s: ColorScheme() reports %#v, the scheme in force is %#v", what, got, cs)
	}
	md := bc.Metadata()
	wantKind := famKinds[c.Fam]
	wantDim := byte(1)
	if is2D(c.Fam) {
		wantDim = 2
	}
	if c.Fam == "ean" {
		wantKind = "EAN 8"
		if len(bc.Content()) == 13 {
			wantKind = "EAN 13"
		}
	}
	if md.CodeKind != wantKind || md.Dimensions != wantDim {
		failf(t, P, K, c, "%s: Metadata() = %+v, want kind %q dimensions %d", what, md, wantKind, wantDim)
	}
	// Content
	in := string(c.Content)
	got := bc.Content()
	switch {
	case c.Fam == "ean":
		if want := eanExpected(in); got != want {
			failf(t, P, K, c, "%s: Content() = %q, want the completed number %q", what, got, want)
		}
	case (c.Fam == "code39" || c.Fam == "code93") && c.F2:
		var dec string
		var derr error
		if c.Fam == "code39" {
			for i := 0; i < len(got); i++ {
				if ref.Code39Value(got[i]) < 0 {
					failf(t, P, K, c, "%s: Content() = %q contains %q, not a basic Code 39 character", what, got, got[i])
				}
			}
			dec, derr = ref.FullASCIIDecode([]rune(got), '$', '%', '/', '+')
		} else {
			for _, r := range got {
				if ref.Code93Value(r) < 0 {
					failf(t, P, K, c, "%s: Content() = %q contains %q, not a Code 93 character", what, got, r)
				}
			}
			dec, derr = ref.FullASCIIDecode([]rune(got), 0xF1, 0xF2, 0xF3, 0xF4)
		}
		if derr != nil || dec != in {
			failf(t, P, K, c, "%s: Content() = %q is not a basic-alphabet spelling of the input (resolves to %q, %v)", what, got, dec, derr)
		}
	default:
		if got != in {
			failf(t, P, K, c, "%s: Content() = %q, want the input", what, got)
		}
	}
	return pat
}

// checkSize validates the symbol size its symbology prescribes, by reading the pattern with the
// family's reference reader (which insists on an exact size).
func checkSize(t TB, c EncSpec, pat [][]bool) string {
	const P, K = "C11", "rendering"
	h, w := len(pat), len(pat[0])
	var err error
	cls := c.Fam
	if !is2D(c.Fam) && h != 1 {
		failf(t, P, K, c, "1D symbol with height %d", h)
	}
	switch c.Fam {
	case "qr":
		var r *ref.QRResult
		r, err = ref.DecodeQR(pat)
		if err == nil {
			cls = fmt.Sprintf("qr v%d", (r.Version+9)/10*10)
		}
	case "datamatrix":
		var r *ref.DMResult
		r, err = ref.DecodeDataMatrix(pat)
		if err == nil {
			cls = fmt.Sprintf("datamatrix regions %d", r.Size.Regions)
		}
	case "aztec":
		if len(c.Content) == 0 && knownFinding("C03", "F11-aztec-empty-payload") {
			if w != 15 && w != 19 {
				// still a square Aztec size
			}
			break
		}
		var r *ref.AztecResult
		r, err = ref.DecodeAztec(pat)
		if err == nil {
			cls = fmt.Sprintf("aztec compact=%v", r.Compact)
		}
	case "pdf417":
		var r *ref.PDFResult
		r, err = ref.DecodePDF417(pat)
		if err == nil && (w != 17*(r.Cols+4)+1 || h != r.Rows*r.RowHeight) {
			err = fmt.Errorf("size %dx%d is not 17(c+4)+1 x rows*h", w, h)
		}
	case "code128":
		_, err = ref.DecodeCode128(pat[0], true)
	case "code128nc":
		_, err = ref.DecodeCode128(pat[0], false)
	case "code39":
		_, err = ref.DecodeCode39Raw(pat[0])
	case "code93":
		_, err = ref.DecodeCode93Raw(pat[0])
	case "codabar":
		_, err = ref.DecodeCodabar(pat[0])
	case "ean":
		_, err = ref.DecodeEAN(pat[0])
	case "2of5":
		_, err = ref.Decode2of5(pat[0], false)
	case "itf":
		_, err = ref.Decode2of5(pat[0], true)
	}
	if err != nil {
		failf(t, P, K, c, "the %dx%d module pattern is not a well-formed %s symbol of a standard size: %v", w, h, c.Fam, err)
	}
	return cls
}

// checkC11 returns a class label ("" = rejected).
func checkC11(t TB, c EncSpec) string {
	noteCase("C11", "rendering", c)
	const P, K = "C11", "rendering"
	plainSpec := c
	plainSpec.Scheme = nil
	pbc, perr, ppv := encodeSpec(plainSpec)
	if ppv != nil {
		failf(t, P, K, c, "plain encode: %v", ppv)
	}
	var cbc barcode.Barcode
	var cerr error
	if c.Scheme != nil {
		var cpv any
		cbc, cerr, cpv = encodeSpec(c)
		if cpv != nil {
			failf(t, P, K, c, "WithColor encode: %v", cpv)
		}
		if (perr == nil) != (cerr == nil) {
			failf(t, P, K, c, "plain and WithColor variants disagree on acceptance: %v / %v", perr, cerr)
		}
	}
	if perr != nil || nilBarcode(pbc) {
		return ""
	}
	ppat := checkRender(t, c, pbc, plainScheme, "plain")
	cls := checkSize(t, c, ppat)
	if c.Scheme != nil {
		cs := c.Scheme.Scheme()
		cpat := checkRender(t, c, cbc, cs, "WithColor")
		if !samePattern(ppat, cpat) {
			failf(t, P, K, c, "module pattern of the WithColor variant differs from the plain one")
		}
		cls += " +" + c.Scheme.FG.Model
		if c.Scheme.Model != "" && (c.Scheme.Model != c.Scheme.FG.Model || c.Scheme.Model != c.Scheme.BG.Model) {
			cls = c.Fam + " +mixed colour types"
		}
		if c.Scheme.Predefined > 0 {
			cls = c.Fam + fmt.Sprintf(" +predefined%d", c.Scheme.Predefined)
		}
	}
	return cls
}

func init() { register("rendering", func(t TB, c EncSpec) { checkC11(t, c) }) }

func TestC11Rapid(t *testing.T) {
	st := NewStats("C11", "rapid")
	runRapid(t, st, func(rt *rapid.T) {
		c := genEncSpec(rt, rapid.SampledFrom([]int{0, 1, 1, 2}).Draw(rt, "size"))
		if rapid.IntRange(0, 4).Draw(rt, "coloured") > 0 {
			c.Scheme = genScheme(rt)
		}
		cls := checkC11(rt, c)
		if cls == "" {
			st.Class("rejected " + c.Fam)
			return
		}
		st.Class(cls)
		st.Cover("family_x_scheme", c.Label())
		if c.Scheme != nil {
			m := c.Scheme.FG.Model
			if c.Scheme.Predefined > 0 {
				m = fmt.Sprintf("predefined%d", c.Scheme.Predefined)
			}
			st.Cover("family_x_model", c.Fam+" "+m)
			st.NonTrivial(H(fmt.Sprintf("%+v %+v", c, *c.Scheme)))
		}
		if len(c.Content) < 10 {
			st.Sample(cls, c)
		}
	})
}

// TestC11Sweep: every family x every colour model x a few fixed contents, plus all symbol size
// classes of the 2D codes with one coloured scheme each.
func TestC11Sweep(t *testing.T) {
	st := NewStats("C11", "sweep")
	defer st.Flush()
	ct := &collectTB{}
	var schemes []*SchemeSpec
	for p := 1; p <= 4; p++ {
		schemes = append(schemes, &SchemeSpec{Predefined: p})
	}
	for i, m := range []string{"gray", "gray16", "rgba", "nrgba", "cmyk"} {
		fg := ColorSpec{Model: m, V: [4]uint16{uint16(10 + i), 0, 0, 0}}
		bg := ColorSpec{Model: m, V: [4]uint16{uint16(200 + i), 0, 0, 0}}
		if m != "gray" && m != "gray16" {
			fg.V = [4]uint16{10, 20, 30, 255}
			bg.V = [4]uint16{250, 240, 230, 255}
		}
		schemes = append(schemes, &SchemeSpec{FG: fg, BG: bg})
		// inverted and "foreground looks like white"
		schemes = append(schemes, &SchemeSpec{FG: bg, BG: fg})
	}
	schemes = append(schemes, &SchemeSpec{Model: "gray", FG: ColorSpec{Model: "rgba", V: [4]uint16{200, 0, 0, 255}}, BG: ColorSpec{Model: "nrgba", V: [4]uint16{255, 255, 0, 128}}},
		&SchemeSpec{Model: "rgba", FG: ColorSpec{Model: "nrgba", V: [4]uint16{10, 200, 30, 128}}, BG: ColorSpec{Model: "gray16", V: [4]uint16{60000, 0, 0, 0}}})
	// colour types / models outside image/color's comparable structs: a caller-defined value type, *image.Uniform, a
	// slice-based colour (not comparable: == panics) and color.Palette as the model (a slice as well: cannot be compared,
	// cannot be a map key)
	schemes = append(schemes,
		&SchemeSpec{Model: "rgba", FG: ColorSpec{Model: "custom", V: [4]uint16{0, 0, 0, 65535}}, BG: ColorSpec{Model: "uniform", V: [4]uint16{255, 255, 255, 255}}},
		&SchemeSpec{Model: "gray16", FG: ColorSpec{Model: "slice", V: [4]uint16{0, 0, 30000, 65535}}, BG: ColorSpec{Model: "slice", V: [4]uint16{65535, 65535, 65535, 65535}}},
		&SchemeSpec{Model: "palette", FG: ColorSpec{Model: "rgba", V: [4]uint16{0, 0, 0, 255}}, BG: ColorSpec{Model: "rgba", V: [4]uint16{255, 255, 255, 255}}},
		&SchemeSpec{Model: "palette", FG: ColorSpec{Model: "gray16", V: [4]uint16{4000}}, BG: ColorSpec{Model: "nrgba", V: [4]uint16{0, 0, 250, 200}}},
		&SchemeSpec{Model: "palette", FG: ColorSpec{Model: "slice", V: [4]uint16{65535, 0, 0, 65535}}, BG: ColorSpec{Model: "slice", V: [4]uint16{0, 0, 0, 0}}})
	base := []EncSpec{
		{Fam: "qr", Content: BStr("hello world"), A: 3, B: 3}, {Fam: "qr", Content: BStr("0123456789"), A: 0, B: 1},
		{Fam: "datamatrix", Content: BStr("Data Matrix")}, {Fam: "aztec", Content: BStr("Aztec Code 123"), A: 33},
		{Fam: "aztec", Content: BStr("full range symbol, explicit"), A: 23, B: 5}, {Fam: "pdf417", Content: BStr("PDF417 sample, 123456789012345"), A: 2},
		{Fam: "code128", Content: BStr("Code-128 ab12")}, {Fam: "code128nc", Content: BStr("NoCheck34")}, {Fam: "code39", Content: BStr("CODE 39"), F1: true},
		{Fam: "code39", Content: BStr("full Ascii!"), F2: true}, {Fam: "code93", Content: BStr("CODE93"), F1: true}, {Fam: "code93", Content: BStr("full~93"), F1: true, F2: true},
		{Fam: "codabar", Content: BStr("A12-3$B")}, {Fam: "ean", Content: BStr("1234567")}, {Fam: "ean", Content: BStr("590123412345")},
		{Fam: "ean", Content: BStr("5901234123457")}, {Fam: "2of5", Content: BStr("12345")}, {Fam: "itf", Content: BStr("123456")},
	}
	var cases []EncSpec
	for _, b := range base {
		cases = append(cases, b)
		for _, s := range schemes {
			c := b
			c.Scheme = s
			cases = append(cases, c)
		}
	}
	// size classes of the 2D symbologies, one coloured scheme
	for v := 1; v <= 40; v += 3 {
		cases = append(cases, EncSpec{Fam: "qr", Content: BStr(fillPattern(3, int64(v), qrCapacity(v, 1, 4))), A: 1, B: 3, Scheme: schemes[5]})
	}
	for _, s := range ref.DMSizes {
		cases = append(cases, EncSpec{Fam: "datamatrix", Content: BStr(dmFit(nil, s.Data, 'k')), Scheme: schemes[7]})
	}
	for l := -4; l <= 32; l++ {
		if l != 0 {
			cases = append(cases, EncSpec{Fam: "aztec", Content: BStr("SIZE"), A: 10, B: l, Scheme: schemes[9]})
		}
	}
	for n := 0; n < 1500; n += 97 {
		cases = append(cases, EncSpec{Fam: "pdf417", Content: BStr(fillPDF(3, int64(n), n)), A: n % 6, Scheme: schemes[11]})
	}
	parallelFor(len(cases), 16, func(i int) {
		if ct.Failed() {
			return
		}
		ct.guard(func() {
			cls := checkC11(ct, cases[i])
			st.Eval()
			if cls == "" {
				st.Class("rejected " + cases[i].Fam)
				return
			}
			st.Class(cls)
			c := cases[i]
			st.Cover("family_x_scheme", c.Label())
			if c.Scheme != nil {
				st.NonTrivial(H(fmt.Sprintf("%+v %+v", c, *c.Scheme)))
			}
		})
	})
	if ct.Failed() {
		t.Fatalf("%s", ct.first)
	}
}
