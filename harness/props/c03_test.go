package props

// C03: Aztec round-trip through an independent reader.

import (
	"bytes"
	"fmt"
	"os"
	"strings"
	"testing"

	"github.com/boombuler/barcode"
	"github.com/boombuler/barcode/aztec"
	"pgregory.net/rapid"
	"verif/ref"
)

type AztecCase struct {
	Payload BStr `json:"payload"`
	ECC     int  `json:"ecc_percent"`
	Layers  int  `json:"layers"`
}

func aztecEncode(c AztecCase) (bc barcode.Barcode, err error, pv any) {
	// the payload is handed over as a window into a larger buffer of the caller's (as a record of a file would be):
	// neither the window nor what lies behind it may be written to
	const guard = 16
	whole := make([]byte, len(c.Payload)+guard)
	copy(whole, c.Payload)
	for i := len(c.Payload); i < len(whole); i++ {
		whole[i] = 0xA5
	}
	data := whole[:len(c.Payload)]
	pv = try(func() { bc, err = aztec.Encode(data, c.ECC, c.Layers) })
	if pv == nil {
		for i := range whole {
			want := byte(0xA5)
			if i < len(c.Payload) {
				want = c.Payload[i]
			}
			if whole[i] != want {
				pv = fmt.Sprintf("aztec.Encode wrote into the caller's buffer: offset %d (payload length %d) became %#02x", i, len(c.Payload), whole[i])
				break
			}
		}
	}
	return
}

func aztecLayersValid(l int) bool { return l >= -4 && l <= 32 }

func genAztecPayload(t *rapid.T, target int) []byte {
	var out []byte
	nseg := rapid.IntRange(1, 9).Draw(t, "nseg")
	rnd := func(set string, n int, label string) {
		for i := 0; i < n; i++ {
			out = append(out, set[rapid.IntRange(0, len(set)-1).Draw(t, label)])
		}
	}
	for s := 0; s < nseg; s++ {
		switch rapid.IntRange(0, 14).Draw(t, "seg") {
		case 0:
			rnd("ABCDEFGHIJKLMNOPQRSTUVWXYZ ", rapid.IntRange(1, 10).Draw(t, "n"), "u")
		case 1:
			rnd("abcdefghijklmnopqrstuvwxyz ", rapid.IntRange(1, 10).Draw(t, "n"), "l")
		case 2:
			rnd("0123456789,. ", rapid.IntRange(1, 12).Draw(t, "n"), "d")
		case 3:
			rnd("\x01\x02\x03\x04\x05\x06\x07\x08\x09\x0a\x0b\x0c\x0d\x1b\x1c\x1d\x1e\x1f@\\^_`|~\x7f ", rapid.IntRange(1, 6).Draw(t, "n"), "m")
		case 4:
			rnd("\r!\"#$%&'()*+,-./:;<=>?[]{}", rapid.IntRange(1, 6).Draw(t, "n"), "p")
		case 5:
			out = append(out, rapid.SampledFrom([]string{"\r\n", ". ", ", ", ": "}).Draw(t, "pair")...)
		case 6: // binary runs around the 31/62 thresholds
			n := rapid.SampledFrom([]int{1, 2, 3, 5, 30, 31, 32, 33, 61, 62, 63, 64, 80}).Draw(t, "nb")
			seed := rapid.IntRange(0, 1<<20).Draw(t, "bseed")
			for i := 0; i < n; i++ {
				out = append(out, byte(128+(seed+i*37)%128))
			}
		case 7:
			n := rapid.IntRange(1, 8).Draw(t, "n")
			for i := 0; i < n; i++ {
				out = append(out, rapid.Byte().Draw(t, "any"))
			}
			if rapid.IntRange(0, 2).Draw(t, "stuffy") == 0 {
				// runs of 0x00 / 0xFF: maximal bit stuffing
				v := rapid.SampledFrom([]byte{0x00, 0xFF}).Draw(t, "sv")
				m := rapid.IntRange(2, 70).Draw(t, "sn")
				for i := 0; i < m; i++ {
					out = append(out, v)
				}
			}
		case 8: // single character of one mode inside another (shift candidates)
			rnd("abcdefghij", rapid.IntRange(2, 5).Draw(t, "n1"), "l")
			rnd("ABC.,!\x80", 1, "one")
			rnd("abcdefghij", rapid.IntRange(2, 5).Draw(t, "n2"), "l")
		case 9:
			rnd("0123456789", rapid.IntRange(2, 6).Draw(t, "n1"), "d")
			rnd("ABZ!:- a\x0d", 1, "one")
			rnd("0123456789", rapid.IntRange(2, 6).Draw(t, "n2"), "d")
		case 10: // pairs adjacent to digits and punctuation
			rnd("0123456789", rapid.IntRange(1, 3).Draw(t, "n1"), "d")
			out = append(out, rapid.SampledFrom([]string{". ", ", ", ".", ",", ": ", "\r\n", "\r"}).Draw(t, "pp")...)
			rnd("0123456789AZaz", rapid.IntRange(1, 3).Draw(t, "n2"), "x")
		case 11: // all byte values window
			start := rapid.IntRange(0, 255).Draw(t, "start")
			n := rapid.IntRange(1, 40).Draw(t, "n")
			for i := 0; i < n; i++ {
				out = append(out, byte(start+i))
			}
		case 12: // bulk towards the target size
			if target <= len(out) {
				rnd("ABCabc012 .,:\r\n!\x01\x80", 3, "mix")
			}
			if target > len(out) {
				n := target - len(out)
				kind := rapid.IntRange(0, 4).Draw(t, "bk")
				seed := uint64(rapid.IntRange(0, 1<<20).Draw(t, "seed"))
				sets := []string{"ABCDEFGHIJKLMNOPQRSTUVWXYZ ", "0123456789", "abcdefghijklmnopqrstuvwxyz .,", "", "Aa0!\x01 bB9?\x1b"}
				stuffy := rapid.IntRange(0, 5).Draw(t, "bulkstuffy")
				for i := 0; i < n; i++ {
					x := seed*0x9E3779B97F4A7C15 + uint64(i+1)*0xBF58476D1CE4E5B9
					x ^= x >> 31
					if stuffy == 0 {
						out = append(out, 0x00)
					} else if stuffy == 1 {
						out = append(out, 0xFF)
					} else if kind == 3 {
						out = append(out, byte(128+(x>>8)%128))
					} else {
						out = append(out, sets[kind][(x>>8)%uint64(len(sets[kind]))])
					}
				}
			}
		case 13:
			out = append(out, latin1Text(t, 12)...)
		default:
			rnd("ABCabc012 .,:\r\n!\x01\x80", rapid.IntRange(1, 14).Draw(t, "n"), "mix")
		}
	}
	return out
}

func genAztecCase(t *rapid.T) AztecCase {
	c := AztecCase{}
	switch rapid.IntRange(0, 3).Draw(t, "ecck") {
	case 0:
		c.ECC = rapid.SampledFrom([]int{0, 1, 5, 10, 23, 25, 33, 50, 75, 90, 100, 150, 300}).Draw(t, "ecc")
	case 1:
		c.ECC = 33
	default:
		c.ECC = rapid.IntRange(0, 100).Draw(t, "eccu")
	}
	switch rapid.IntRange(0, 9).Draw(t, "layk") {
	case 0, 1, 2, 3, 4:
		c.Layers = 0
	case 5:
		c.Layers = -rapid.IntRange(1, 4).Draw(t, "compact")
	case 6, 7, 8:
		c.Layers = rapid.IntRange(1, 32).Draw(t, "full")
		if rapid.IntRange(0, 2).Draw(t, "lowfull") == 0 {
			c.Layers = rapid.IntRange(1, 8).Draw(t, "fullsmall")
		}
	default:
		c.Layers = rapid.SampledFrom([]int{-5, -6, -100, 33, 34, 100, 1 << 20, -(1 << 20)}).Draw(t, "badlayers")
	}
	target := 0
	if c.Layers != 0 && aztecLayersValid(c.Layers) {
		compact := c.Layers < 0
		l := c.Layers
		if compact {
			l = -l
		}
		bits := ref.AztecTotalBits(compact, l) * 100 / (100 + c.ECC)
		// between 4 and 8 bits per character; aim somewhere in that band, sometimes beyond
		target = bits / rapid.IntRange(4, 9).Draw(t, "bpc")
	} else if rapid.IntRange(0, 5).Draw(t, "big") == 0 {
		target = rapid.IntRange(100, 1500).Draw(t, "target")
	}
	if target > 3200 {
		target = 3200
	}
	c.Payload = BStr(genAztecPayload(t, target))
	if rapid.IntRange(0, 30).Draw(t, "empty") == 17 {
		c.Payload = BStr{}
	}
	return c
}

// checkAztecEmptyPinned: the empty payload is a recorded finding (F11: the mode message's "data words - 1" field wraps,
// so it declares 64 / 2048 data words). Exactly that symptom is excluded - anything ELSE that is wrong with the symbol of
// an empty payload (bullseye, orientation marks, mode message not Reed-Solomon valid, layer field that disagrees with
// the symbol size, a size other than the requested one) is a different violation and is reported.
func checkAztecEmptyPinned(t TB, c AztecCase) {
	const P, K = "C03", "aztec-roundtrip"
	bc, err, pv := aztecEncode(c)
	if pv != nil {
		failf(t, P, K, c, "%v", pv)
	}
	if err != nil || nilBarcode(bc) {
		return
	}
	m, merr := matrix2D(bc)
	if merr != nil {
		failf(t, P, K, c, "empty payload: %v", merr)
	}
	if aztecLayersValid(c.Layers) && c.Layers != 0 {
		compact, layers := c.Layers < 0, c.Layers
		if compact {
			layers = -layers
		}
		if want := ref.AztecSize(compact, layers); len(m) != want {
			failf(t, P, K, c, "empty payload: explicit layer request %d gives a %dx%d symbol, want %dx%d", c.Layers, len(m), len(m), want, want)
		}
	}
	_, derr := ref.DecodeAztec(m)
	if derr == nil {
		return // the recorded finding no longer shows (TestC03KnownFindings reports that)
	}
	msg := derr.Error()
	if strings.HasPrefix(msg, "mode message declares 64 data words") || strings.HasPrefix(msg, "mode message declares 2048 data words") || strings.HasPrefix(msg, "data word 0 is all zeros or all ones") {
		return // the recorded symptom
	}
	failf(t, P, K, c, "empty payload: beyond the recorded finding F11 (wrapped data-word count) the symbol is wrong in another way: %s", msg)
}

// checkAztecRoundTrip returns the reader's result (nil when rejected or excluded).
func checkAztecRoundTrip(t TB, st *Stats, c AztecCase) *ref.AztecResult {
	noteCase("C03", "aztec-roundtrip", c)
	const P, K = "C03", "aztec-roundtrip"
	if len(c.Payload) == 0 && knownFinding("C03", "F11-aztec-empty-payload") {
		if st != nil {
			st.Excluded("F11-aztec-empty-payload")
		}
		checkAztecEmptyPinned(t, c)
		return nil
	}
	if n := len(c.Payload); n >= 5 && n <= 300 {
		// the call before: a different payload of equal length and equal CRC-32, same parameters
		tw := c
		tw.Payload = BStr(crcTwin(c.Payload, n))
		aztecEncode(tw)
	}
	bc, err, pv := aztecEncode(c)
	if pv != nil {
		failf(t, P, K, c, "%v", pv)
	}
	if err != nil || nilBarcode(bc) {
		return nil
	}
	if !aztecLayersValid(c.Layers) {
		failf(t, P, K, c, "layer request %d outside -4..32 accepted", c.Layers)
	}
	disturb("aztec")
	m, merr := matrix2D(bc)
	if merr != nil {
		failf(t, P, K, c, "%v", merr)
	}
	res, derr := ref.DecodeAztec(m)
	colourVariant(t, P, K, c, EncSpec{Fam: "aztec", Content: c.Payload, A: c.ECC, B: c.Layers}, m)
	if derr != nil {
		failf(t, P, K, c, "reference reader: %v", derr)
	}
	if !bytes.Equal(res.Content, c.Payload) {
		failf(t, P, K, c, "symbol (compact=%v, %d layers) decodes to %q; transitions %v", res.Compact, res.Layers, truncS(res.Content), res.Trans)
	}
	if c.Layers != 0 {
		wantCompact, wantLayers := c.Layers < 0, c.Layers
		if wantCompact {
			wantLayers = -wantLayers
		}
		if res.Compact != wantCompact || res.Layers != wantLayers {
			failf(t, P, K, c, "layer request %d not honoured: symbol is compact=%v with %d layers", c.Layers, res.Compact, res.Layers)
		}
	}
	return res
}

func init() {
	register("aztec-roundtrip", func(t TB, c AztecCase) { checkAztecRoundTrip(t, nil, c) })
}

func c03Account(st *Stats, c AztecCase, res *ref.AztecResult) {
	if res == nil {
		st.Class("rejected or excluded")
		return
	}
	st.Class("accepted")
	sz := fmt.Sprintf("full-%d", res.Layers)
	if res.Compact {
		sz = fmt.Sprintf("compact-%d", res.Layers)
	}
	st.Cover("aztec_sizes", sz)
	st.Cover("aztec_word_sizes", fmt.Sprint(res.WordSize))
	for _, tr := range res.Trans {
		st.Cover("aztec_transitions", tr)
	}
	if len(res.Trans) > 0 {
		st.NonTrivial(H(c.ECC, c.Layers, c.Payload))
	}
	if c.Layers != 0 {
		st.Class("explicit layer request honoured")
	}
}

func TestC03Rapid(t *testing.T) {
	foreignWarmup("aztec")
	st := NewStats("C03", "rapid")
	runRapid(t, st, func(rt *rapid.T) {
		if rapid.IntRange(0, 19).Draw(rt, "seek") == 0 {
			for _, c := range genAztecSeek(rt) {
				c03Account(st, c, checkAztecRoundTrip(rt, st, c))
				st.Class("around a size transition of the implementation (found by bisection)")
			}
			return
		}
		c := genAztecCase(rt)
		res := checkAztecRoundTrip(rt, st, c)
		c03Account(st, c, res)
		if len(c.Payload) <= 14 && res != nil {
			st.Sample(fmt.Sprintf("compact=%v layers=%d", res.Compact, res.Layers), c)
		}
	})
}

// TestC03Sweep: every size (4 compact + 32 full) by explicit request with payloads that fit,
// every single byte value, all ordered pairs of characters from the 5 modes + binary, and the
// long binary-shift boundary.
func TestC03Sweep(t *testing.T) {
	foreignWarmup("aztec")
	st := NewStats("C03", "sweep")
	defer st.Flush()
	ct := &collectTB{}
	var cases []AztecCase
	for l := -4; l <= 32; l++ {
		if l == 0 {
			continue
		}
		compact, n := l < 0, l
		if compact {
			n = -l
		}
		bits := ref.AztecTotalBits(compact, n)
		for _, pct := range []int{5, 33, 90} {
			for kind := 0; kind < 3; kind++ {
				chars := bits * 100 / (100 + pct) / []int{6, 9, 5}[kind]
				if chars > 3000 {
					chars = 3000
				}
				if compact && chars > 60 {
					chars = chars * 3 / 4
				}
				p := make([]byte, chars)
				for i := range p {
					switch kind {
					case 0:
						p[i] = "ABCDEFGHIJ KLMNOP"[i%17]
					case 1:
						p[i] = byte(128 + i%100)
					default:
						p[i] = "0123456789.,"[i%12]
					}
				}
				cases = append(cases, AztecCase{Payload: BStr(p), ECC: pct, Layers: l})
			}
		}
	}
	for b := 0; b < 256; b++ {
		cases = append(cases, AztecCase{Payload: BStr{byte(b)}, ECC: 33}, AztecCase{Payload: BStr{'a', byte(b), 'a'}, ECC: 23}, AztecCase{Payload: BStr{'1', byte(b), '2', byte(b)}, ECC: 50})
	}
	reps := "Aa1\x01!\x80 ,.\r\n:\""
	for i := 0; i < len(reps); i++ {
		for j := 0; j < len(reps); j++ {
			for k := 0; k < len(reps); k++ {
				cases = append(cases, AztecCase{Payload: BStr{reps[i], reps[j], reps[k], reps[i]}, ECC: 33})
			}
		}
	}
	for _, n := range []int{30, 31, 32, 61, 62, 63, 64, 100, 2046, 2047} {
		p := bytes.Repeat([]byte{0xA5}, n)
		cases = append(cases, AztecCase{Payload: BStr(p), ECC: 10}, AztecCase{Payload: BStr(append([]byte("ab"), append(p, "cd"...)...)), ECC: 10})
	}
	// a punctuation pair at every offset around the 2078-byte limit of one binary-shift block, and around 31/62
	for _, off := range []int{29, 30, 31, 32, 60, 61, 62, 63, 2046, 2047, 2075, 2076, 2077, 2078, 2079, 2080} {
		for pi, pair := range []string{". ", ", ", ": ", "\r\n"} {
			if off > 100 && pi > 1 && !thorough() {
				continue
			}
			p := append(bytes.Repeat([]byte{0x9C}, off), pair...)
			p = append(p, bytes.Repeat([]byte{0x9D}, 12)...)
			cases = append(cases, AztecCase{Payload: BStr(p), ECC: 5, Layers: 0})
		}
	}
	if thorough() {
		for _, n := range []int{2077, 2078, 2079, 2080, 2110} {
			cases = append(cases, AztecCase{Payload: BStr(bytes.Repeat([]byte{0xC3}, n)), ECC: 1, Layers: 32})
		}
	}
	parallelFor(len(cases), 16, func(i int) {
		if ct.Failed() {
			return
		}
		ct.guard(func() {
			res := checkAztecRoundTrip(ct, st, cases[i])
			st.Eval()
			c03Account(st, cases[i], res)
			if res == nil && cases[i].Layers == 0 && len(cases[i].Payload) < 100 {
				failf(ct, "C03", "aztec-roundtrip", cases[i], "small payload rejected with automatic size")
			}
		})
	})
	if ct.Failed() {
		t.Fatalf("%s", ct.first)
	}
}

// TestC03KnownFindings re-confirms the recorded finding(s) of C03 on the current tree.
func TestC03KnownFindings(t *testing.T) {
	if !knownFinding("C03", "F11-aztec-empty-payload") {
		t.Skip("not listed")
	}
	c := AztecCase{Payload: BStr{}, ECC: 33}
	bc, err, pv := aztecEncode(c)
	gone := true
	if pv != nil {
		gone = false
	} else if err == nil && !nilBarcode(bc) {
		if m, e := matrix2D(bc); e == nil {
			if r, derr := ref.DecodeAztec(m); derr != nil || len(r.Content) != 0 {
				gone = false
			}
		}
	}
	if gone {
		fmt.Fprintln(os.Stdout, "KNOWN-FINDING-GONE F11-aztec-empty-payload")
	} else {
		fmt.Fprintln(os.Stdout, "KNOWN-FINDING-CONFIRMED F11-aztec-empty-payload")
	}
}
