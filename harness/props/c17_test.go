package props

// C17: Galois-field, polynomial and Reed-Solomon utilities against schoolbook arithmetic.

import (
	"fmt"
	"sync/atomic"
	"testing"
	"time"

	"github.com/boombuler/barcode/utils"
	"pgregory.net/rapid"
	"verif/ref"
)

type gfSpec struct {
	Name string
	PP   int
	Size int
}

// the (polynomial, size) pairs the library constructs: qr (285), datamatrix/aztec-8 (301),
// aztec 4/6/10/12 bit. Every one is exercised with base 0 and base 1.
var gfSpecs = []gfSpec{
	{"GF(16)/0x13", 0x13, 16}, {"GF(64)/0x43", 0x43, 64}, {"GF(256)/0x11D", 0x11D, 256},
	{"GF(256)/0x12D", 0x12D, 256}, {"GF(1024)/0x409", 0x409, 1024}, {"GF(4096)/0x1069", 0x1069, 4096},
}

type GFPairCase struct {
	Field int `json:"field"`
	Base  int `json:"base"`
	A     int `json:"a"`
	B     int `json:"b"`
	C     int `json:"c"`
}

func checkGFPair(t TB, c GFPairCase) {
	noteCase("C17", "gf-pair", c)
	sp := gfSpecs[c.Field]
	rf := ref.GF2{Poly: sp.PP, Size: sp.Size}
	var gf *utils.GaloisField
	if pv := try(func() { gf = utils.NewGaloisField(sp.PP, sp.Size, c.Base) }); pv != nil {
		failf(t, "C17", "gf-pair", c, "NewGaloisField: %v", pv)
	}
	checkGFPairOn(t, gf, rf, c)
}

func checkGFPairOn(t TB, gf *utils.GaloisField, rf ref.GF2, c GFPairCase) {
	a, b := c.A, c.B
	var m, m2, add int
	if pv := try(func() { m = gf.Multiply(a, b); m2 = gf.Multiply(b, a); add = gf.AddOrSub(a, b) }); pv != nil {
		failf(t, "C17", "gf-pair", c, "Multiply(%d,%d): %v", a, b, pv)
	}
	want := rf.Mul(a, b)
	if m != want {
		failf(t, "C17", "gf-pair", c, "Multiply(%d,%d)=%d, schoolbook %d", a, b, m, want)
	}
	if m != m2 {
		failf(t, "C17", "gf-pair", c, "Multiply not commutative: %d*%d=%d, %d*%d=%d", a, b, m, b, a, m2)
	}
	if add != a^b {
		failf(t, "C17", "gf-pair", c, "AddOrSub(%d,%d)=%d, want %d", a, b, add, a^b)
	}
	if b != 0 {
		var d, back, d2 int
		if pv := try(func() { d = gf.Divide(a, b); back = gf.Multiply(d, b); d2 = gf.Divide(m, b) }); pv != nil {
			failf(t, "C17", "gf-pair", c, "Divide(%d,%d): %v", a, b, pv)
		}
		if d < 0 || d >= rf.Size || back != a {
			failf(t, "C17", "gf-pair", c, "Divide(%d,%d)=%d but %d*%d=%d", a, b, d, d, b, back)
		}
		if d2 != a {
			failf(t, "C17", "gf-pair", c, "Divide(Multiply(%d,%d),%d)=%d, want %d", a, b, b, d2, a)
		}
	}
}

func checkGFAssoc(t TB, gf *utils.GaloisField, c GFPairCase) {
	var l, r int
	if pv := try(func() {
		l = gf.Multiply(gf.Multiply(c.A, c.B), c.C)
		r = gf.Multiply(c.A, gf.Multiply(c.B, c.C))
	}); pv != nil {
		failf(t, "C17", "gf-assoc", c, "%v", pv)
	}
	if l != r {
		failf(t, "C17", "gf-assoc", c, "(%d*%d)*%d=%d but %d*(%d*%d)=%d", c.A, c.B, c.C, l, c.A, c.B, c.C, r)
	}
}

func checkGFInv(t TB, gf *utils.GaloisField, c GFPairCase) {
	var inv, one int
	if pv := try(func() { inv = gf.Invers(c.A); one = gf.Multiply(c.A, inv) }); pv != nil {
		failf(t, "C17", "gf-inv", c, "Invers(%d): %v", c.A, pv)
	}
	if one != 1 || inv <= 0 || inv >= gf.Size {
		failf(t, "C17", "gf-inv", c, "Invers(%d)=%d, product %d", c.A, inv, one)
	}
}

func init() {
	register("gf-pair", checkGFPair)
	register("gf-assoc", func(t TB, c GFPairCase) {
		sp := gfSpecs[c.Field]
		checkGFAssoc(t, utils.NewGaloisField(sp.PP, sp.Size, c.Base), c)
	})
	register("gf-inv", func(t TB, c GFPairCase) {
		sp := gfSpecs[c.Field]
		checkGFInv(t, utils.NewGaloisField(sp.PP, sp.Size, c.Base), c)
	})
	register("gf-poly", checkPoly)
	register("rs-history", func(t TB, c RSCase) { checkRS(t, c) })
}

// TestC17FieldExhaustive: all operand pairs of every field (and all triples of the small ones).
func TestC17FieldExhaustive(t *testing.T) {
	st := NewStats("C17", "field-exhaustive")
	defer st.Flush()
	ct := &collectTB{}
	for fi, sp := range gfSpecs {
		for base := 0; base <= 1; base++ {
			rf := ref.GF2{Poly: sp.PP, Size: sp.Size}
			gf := utils.NewGaloisField(sp.PP, sp.Size, base)
			var pairs, nz int64
			parallelFor(sp.Size, 16, func(a int) {
				if ct.Failed() {
					return
				}
				ct.guard(func() {
					for b := 0; b < sp.Size; b++ {
						checkGFPairOn(ct, gf, rf, GFPairCase{Field: fi, Base: base, A: a, B: b})
					}
					if a != 0 {
						checkGFInv(ct, gf, GFPairCase{Field: fi, Base: base, A: a})
					}
					atomic.AddInt64(&pairs, int64(sp.Size))
					if a != 0 {
						atomic.AddInt64(&nz, int64(sp.Size-1))
					}
				})
			})
			st.EvalN(pairs)
			st.NonTrivialN(nz)
			st.ClassN("pairs "+sp.Name, pairs)
			// associativity: exhaustive for small fields (thorough: up to 256 elements)
			lim := 64
			if thorough() {
				lim = 256
			}
			if sp.Size <= lim && base == 0 {
				var triples int64
				parallelFor(sp.Size, 16, func(a int) {
					if ct.Failed() {
						return
					}
					ct.guard(func() {
						for b := 0; b < sp.Size; b++ {
							for c := 0; c < sp.Size; c++ {
								checkGFAssoc(ct, gf, GFPairCase{Field: fi, Base: base, A: a, B: b, C: c})
							}
						}
						atomic.AddInt64(&triples, int64(sp.Size*sp.Size))
					})
				})
				st.EvalN(triples)
				st.NonTrivialN(triples)
				st.ClassN("triples "+sp.Name, triples)
			}
		}
	}
	st.Sample("pair", GFPairCase{Field: 5, Base: 1, A: 2, B: 4})
	st.Set("exhaustive", true)
	st.Set("exhaustive_domain", "all operand pairs (a,b) of each of the 6 fields x base 0/1: Multiply vs schoolbook, commutativity, Divide for b!=0, Invers; all triples for fields up to the tier's size bound")
	if ct.Failed() {
		t.Fatalf("%s", ct.first)
	}
}

// ---------------------------------------------------------------------------------------------
// polynomials

type PolyCase struct {
	Field int   `json:"field"`
	A     []int `json:"a"` // dividend / left operand, highest degree first, may have leading zeros
	B     []int `json:"b"` // divisor / right operand
	Deg   int   `json:"deg"`
	Coef  int   `json:"coef"`
}

func eqPoly(a, b []int) bool {
	a, b = ref.Norm(a), ref.Norm(b)
	if len(a) != len(b) {
		return false
	}
	for i := range a {
		if a[i] != b[i] {
			return false
		}
	}
	return true
}

func checkPoly(t TB, c PolyCase) {
	noteCase("C17", "gf-poly", c)
	sp := gfSpecs[c.Field]
	rf := ref.GF2{Poly: sp.PP, Size: sp.Size}
	gf := utils.NewGaloisField(sp.PP, sp.Size, 1)
	cp := func(v []int) []int { return append([]int(nil), v...) }
	var sum, prod, mono, q, r, libBack, selfSum []int
	var sumDeg, rDeg int
	var sumZero, rZero bool
	bZero := ref.AllZero(c.B)
	var aAfter, bAfter, aSlice, bSlice []int
	var mod *[3][]int
	var again *[2][]int
	if pv := try(func() {
		aSlice, bSlice = cp(c.A), cp(c.B)
		gfB := gf
		if (c.Deg+c.Coef)%3 == 0 { // the operands live on two separately constructed instances of the same field
			gfB = utils.NewGaloisField(sp.PP, sp.Size, 1)
		}
		pa, pb := utils.NewGFPoly(gf, aSlice), utils.NewGFPoly(gfB, bSlice)
		defer func() { aAfter, bAfter = cp(pa.Coefficients), cp(pb.Coefficients) }()
		ps := pa.AddOrSubstract(pb)
		sum = cp(ps.Coefficients)
		prod = cp(pa.Multiply(pb).Coefficients)
		mono = cp(pa.MultByMonominal(c.Deg, c.Coef).Coefficients)
		selfSum = cp(pa.AddOrSubstract(pa).Coefficients)
		// results are polynomials: the library's own operations must accept them
		sumDeg, sumZero = ps.Degree(), ps.Zero()
		_ = ps.GetCoefficient(0)
		_ = ps.AddOrSubstract(pb).Multiply(pa)
		if !bZero {
			qq, rr := pa.Divide(pb)
			q, r = cp(qq.Coefficients), cp(rr.Coefficients)
			rDeg, rZero = rr.Degree(), rr.Zero()
			_ = rr.GetCoefficient(0)
			libBack = cp(qq.Multiply(pb).AddOrSubstract(rr).Coefficients) // the statement, evaluated by the library itself
			// the same divisor object after the caller changed its leading coefficient (Coefficients is exported):
			// the division must follow the divisor as it is now
			if lead := pb.Coefficients[0]; lead != 0 {
				newLead := lead%(sp.Size-1) + 1
				pb.Coefficients[0] = newLead
				var q2, r2 *utils.GFPoly
				if !withWatchdogFor(20*time.Second, func() { q2, r2 = pa.Divide(pb) }) {
					panic("Divide by a divisor whose leading coefficient the caller had changed did not return within 20 s")
				}
				mod = &[3][]int{cp(pb.Coefficients), cp(q2.Coefficients), cp(r2.Coefficients)}
				pb.Coefficients[0] = lead
			}
			// results belong to the caller: after it has written into every polynomial it was handed (also the zero
			// ones), a fresh division must still be right
			same := func(x, y *utils.GFPoly) bool {
				return x == y || (len(x.Coefficients) > 0 && len(y.Coefficients) > 0 && &x.Coefficients[0] == &y.Coefficients[0])
			}
			for _, res := range []*utils.GFPoly{ps, qq, rr, pa.Multiply(gf.Zero()), gf.Zero(), pa.MultByMonominal(1, 0), pa.AddOrSubstract(pa)} {
				if same(res, pa) || same(res, pb) {
					continue // an operation may hand back one of its operands (zero + p = p): that is the caller's own polynomial
				}
				for k := range res.Coefficients {
					res.Coefficients[k] = (res.Coefficients[k] + 1 + k) % sp.Size
				}
			}
			q3, r3 := utils.NewGFPoly(gf, cp(c.A)).Divide(utils.NewGFPoly(gf, cp(c.B)))
			again = &[2][]int{cp(q3.Coefficients), cp(r3.Coefficients)}
		}
	}); pv != nil {
		failf(t, "C17", "gf-poly", c, "%v", pv)
	}
	// the operands are values: neither the polynomials nor the slices they were made from may change
	if !eqPoly(aAfter, c.A) || !eqPoly(bAfter, c.B) {
		failf(t, "C17", "gf-poly", c, "an operation changed its operand: left operand now %v (was %v), right operand now %v (was %v)", aAfter, ref.Norm(c.A), bAfter, ref.Norm(c.B))
	}
	for i := range c.A {
		if aSlice[i] != c.A[i] {
			failf(t, "C17", "gf-poly", c, "the coefficient slice handed to NewGFPoly was changed by later operations: %v, was %v", aSlice, c.A)
		}
	}
	for i := range c.B {
		if bSlice[i] != c.B[i] {
			failf(t, "C17", "gf-poly", c, "the coefficient slice handed to NewGFPoly was changed by later operations: %v, was %v", bSlice, c.B)
		}
	}
	wantSum := ref.Norm(rf.PolyAdd(c.A, c.B))
	if len(sum) == 0 || sumDeg != len(wantSum)-1 || sumZero != ref.AllZero(wantSum) {
		failf(t, "C17", "gf-poly", c, "AddOrSubstract result has %d coefficients, Degree()=%d, Zero()=%v; the sum is %v", len(sum), sumDeg, sumZero, wantSum)
	}
	if !eqPoly(selfSum, []int{0}) || len(selfSum) == 0 {
		failf(t, "C17", "gf-poly", c, "p.AddOrSubstract(p)=%v, want the zero polynomial", selfSum)
	}
	if !eqPoly(sum, rf.PolyAdd(c.A, c.B)) {
		failf(t, "C17", "gf-poly", c, "AddOrSubstract=%v want %v", sum, ref.Norm(rf.PolyAdd(c.A, c.B)))
	}
	if !eqPoly(prod, rf.PolyMul(c.A, c.B)) {
		failf(t, "C17", "gf-poly", c, "Multiply=%v want %v", prod, ref.Norm(rf.PolyMul(c.A, c.B)))
	}
	mm := make([]int, c.Deg+1)
	mm[0] = c.Coef
	if !eqPoly(mono, rf.PolyMul(c.A, mm)) {
		failf(t, "C17", "gf-poly", c, "MultByMonominal(%d,%d)=%v want %v", c.Deg, c.Coef, mono, ref.Norm(rf.PolyMul(c.A, mm)))
	}
	if !bZero {
		back := rf.PolyAdd(rf.PolyMul(q, c.B), r)
		if !eqPoly(back, c.A) {
			failf(t, "C17", "gf-poly", c, "Divide: q=%v r=%v but q*d+r=%v != dividend %v", q, r, ref.Norm(back), ref.Norm(c.A))
		}
		if !eqPoly(libBack, c.A) || len(r) == 0 || len(q) == 0 {
			failf(t, "C17", "gf-poly", c, "Divide: q=%v r=%v; q.Multiply(d).AddOrSubstract(r) = %v != dividend %v", q, r, libBack, ref.Norm(c.A))
		}
		if wantR := ref.Norm(r); rDeg != len(wantR)-1 || rZero != ref.AllZero(wantR) {
			failf(t, "C17", "gf-poly", c, "Divide: remainder %v reports Degree()=%d Zero()=%v", r, rDeg, rZero)
		}
		if mod != nil {
			if back := rf.PolyAdd(rf.PolyMul(mod[1], mod[0]), mod[2]); !eqPoly(back, c.A) {
				failf(t, "C17", "gf-poly", c, "Divide by the same divisor object after its leading coefficient was changed to %d: q=%v r=%v, q*d+r=%v != dividend %v", mod[0][0], mod[1], mod[2], ref.Norm(back), ref.Norm(c.A))
			}
		}
		if again != nil {
			if back := rf.PolyAdd(rf.PolyMul(again[0], c.B), again[1]); !eqPoly(back, c.A) {
				failf(t, "C17", "gf-poly", c, "after the caller overwrote the polynomials returned by earlier operations, a fresh Divide returns q=%v r=%v: q*d+r=%v != dividend %v", again[0], again[1], ref.Norm(back), ref.Norm(c.A))
			}
		}
		rn, bn := ref.Norm(r), ref.Norm(c.B)
		if !(len(rn) < len(bn) || (len(rn) == 1 && rn[0] == 0)) {
			failf(t, "C17", "gf-poly", c, "Divide: deg r=%d not below deg d=%d (r=%v)", len(rn)-1, len(bn)-1, rn)
		}
	}
}

func genPoly(t *rapid.T, size int, label string) []int {
	n := rapid.IntRange(1, 60).Draw(t, label+"len")
	kind := rapid.IntRange(0, 9).Draw(t, label+"kind")
	out := make([]int, n)
	for i := range out {
		switch {
		case kind == 0: // zero polynomial
		case kind == 1 && i < n/2: // leading zeros
		case kind == 2 && i > 0: // monomial
		default:
			out[i] = rapid.IntRange(0, size-1).Draw(t, label)
		}
	}
	if kind == 2 {
		out[0] = rapid.IntRange(1, size-1).Draw(t, label+"lead")
	}
	return out
}

// ---------------------------------------------------------------------------------------------
// Reed-Solomon: histories of Encode calls on one encoder instance

type RSCall struct {
	Data []int `json:"data"`
	N    int   `json:"n"`
}

type RSCase struct {
	Field int      `json:"field"`
	Base  int      `json:"base"`
	Calls []RSCall `json:"calls"`
}

func checkRS(t TB, c RSCase) (degOrder string) {
	noteCase("C17", "rs-history", c)
	sp := gfSpecs[c.Field]
	rf := ref.GF2{Poly: sp.PP, Size: sp.Size}
	var enc *utils.ReedSolomonEncoder
	if pv := try(func() { enc = utils.NewReedSolomonEncoder(utils.NewGaloisField(sp.PP, sp.Size, c.Base)) }); pv != nil {
		failf(t, "C17", "rs-history", c, "constructor: %v", pv)
	}
	asc, desc := true, true
	type heldRS struct {
		s, snap []int
		call    int
	}
	var held []heldRS
	var pendingPrev []int
	sentinels := []int{sp.Size - 1, 1, sp.Size - 2, 2, 7 % sp.Size, 3, 4 % sp.Size, 5 % sp.Size, 1, 1}
	for i, call := range c.Calls {
		if i > 0 {
			if call.N < c.Calls[i-1].N {
				asc = false
			}
			if call.N > c.Calls[i-1].N {
				desc = false
			}
		}
		// the data is a sub-slice of a larger buffer of the caller's: what lies behind it must not be touched
		whole := make([]int, len(call.Data)+call.N+8)
		copy(whole, call.Data)
		for j := len(call.Data); j < len(whole); j++ {
			whole[j] = 1 + j%(sp.Size-1)
		}
		data := whole[:len(call.Data)]
		var got []int
		var pv any
		if !withWatchdogFor(20*time.Second, func() { pv = try(func() { got = enc.Encode(data, call.N) }) }) {
			failf(t, "C17", "rs-history", c, "call %d Encode(len %d, %d) did not return within 20 s (it normally takes microseconds): the encoder is blocked after the earlier requests", i, len(call.Data), call.N)
		}
		if call.N < 1 || call.N > sp.Size-1 {
			// not a Reed-Solomon code of this field (more check symbols than non-zero elements, or none): whatever
			// this request does, panic included, it is only here as an EARLIER request for the calls that follow
			continue
		}
		if pv != nil {
			failf(t, "C17", "rs-history", c, "call %d Encode(len %d, %d): %v", i, len(call.Data), call.N, pv)
		}
		for j := len(call.Data); j < len(whole); j++ {
			if whole[j] != 1+j%(sp.Size-1) {
				failf(t, "C17", "rs-history", c, "call %d: Encode wrote into the caller's buffer behind the data (offset +%d became %d)", i, j-len(call.Data), whole[j])
			}
		}
		for j := range data {
			if data[j] != call.Data[j] {
				failf(t, "C17", "rs-history", c, "call %d: Encode modified its input at %d", i, j)
			}
		}
		if len(got) != call.N {
			failf(t, "C17", "rs-history", c, "call %d: %d check symbols, want %d", i, len(got), call.N)
		}
		g := rf.Generator(call.N, c.Base)
		want := rf.RSRemainder(call.Data, g)
		for j := range want {
			if got[j] != want[j] {
				failf(t, "C17", "rs-history", c, "call %d: check symbol %d is %d, reference shift-register encoder %d", i, j, got[j], want[j])
			}
		}
		cw := append(append([]int(nil), call.Data...), got...)
		if syn := rf.Syndromes(cw, call.N, c.Base); !ref.AllZero(syn) {
			failf(t, "C17", "rs-history", c, "call %d: data+check does not vanish at alpha^%d..: syndromes %v", i, c.Base, syn)
		}
		// an application that appended to the PREVIOUS result only now (check symbols + trailer) must not thereby
		// change this result
		if pendingPrev != nil {
			ext := append(pendingPrev, sentinels...)
			held = append(held, heldRS{ext, append([]int(nil), ext...), i - 1})
			pendingPrev = nil
			for j := range want {
				if got[j] != want[j] {
					failf(t, "C17", "rs-history", c, "call %d: check symbol %d became %d (reference %d) when the caller appended to the slice returned by call %d: returned slices share storage", i, j, got[j], want[j], i-1)
				}
			}
		}
		// the returned symbols belong to the caller: overwriting them must not influence later calls
		for j := range got {
			got[j] = (got[j] + 1 + j) % sp.Size
		}
		// ... and so does appending to them (whatever capacity the slice came with), now or after the next call
		if i%2 == 0 {
			ext := append(got, sentinels...)
			held = append(held, heldRS{ext, append([]int(nil), ext...), i})
		} else {
			pendingPrev = got
			held = append(held, heldRS{got, append([]int(nil), got...), i})
		}
		for _, h := range held[:len(held)-1] {
			for j := range h.snap {
				if h.s[j] != h.snap[j] {
					failf(t, "C17", "rs-history", c, "the slice returned by call %d (held, overwritten and extended by the caller) changed at index %d from %d to %d during call %d", h.call, j, h.snap[j], h.s[j], i)
				}
			}
		}
	}
	switch {
	case len(c.Calls) < 2:
		return "single"
	case asc && desc:
		return "repeated"
	case asc:
		return "ascending"
	case desc:
		return "descending"
	}
	return "mixed"
}

// forceZeroChecks changes the last len(pos) data symbols so that the reference check symbols are zero at the
// positions pos (0 = first check symbol). Check symbols depend linearly on the data, so this is a small linear
// system over the field, solved with the reference arithmetic only. Returns false (data untouched) if the system
// is singular or the data is too short. Purpose: check-symbol vectors with leading / trailing / inner zeros are
// a 1-in-size^z event for random data, but exactly where remainder handling (stripped leading zeros) goes wrong.
func forceZeroChecks(rf ref.GF2, data []int, n, base int, pos []int) bool {
	z := len(pos)
	if z == 0 || z > len(data) || z > n {
		return false
	}
	g := rf.Generator(n, base)
	r := rf.RSRemainder(data, g)
	m := make([][]int, z) // augmented matrix z x (z+1)
	for i := range m {
		m[i] = make([]int, z+1)
		m[i][z] = r[pos[i]]
	}
	for j := 0; j < z; j++ {
		unit := make([]int, len(data))
		unit[len(data)-1-j] = 1
		v := rf.RSRemainder(unit, g)
		for i := range m {
			m[i][j] = v[pos[i]]
		}
	}
	for col := 0; col < z; col++ {
		piv := -1
		for row := col; row < z; row++ {
			if m[row][col] != 0 {
				piv = row
				break
			}
		}
		if piv < 0 {
			return false
		}
		m[col], m[piv] = m[piv], m[col]
		inv := rf.Inv(m[col][col])
		for k := col; k <= z; k++ {
			m[col][k] = rf.Mul(m[col][k], inv)
		}
		for row := 0; row < z; row++ {
			if row != col && m[row][col] != 0 {
				f := m[row][col]
				for k := col; k <= z; k++ {
					m[row][k] ^= rf.Mul(f, m[col][k])
				}
			}
		}
	}
	for j := 0; j < z; j++ {
		data[len(data)-1-j] ^= m[j][z] // characteristic 2: adding the solution cancels the chosen symbols
	}
	return true
}

// zeroPositions: which check symbols to force to zero, by kind: 0 leading, 1 trailing, 2 first and last, 3 inner run.
func zeroPositions(kind, z, n int) []int {
	var pos []int
	switch kind {
	case 0:
		for i := 0; i < z; i++ {
			pos = append(pos, i)
		}
	case 1:
		for i := 0; i < z; i++ {
			pos = append(pos, n-1-i)
		}
	case 2:
		pos = []int{0}
		if n > 1 {
			pos = append(pos, n-1)
		}
	default:
		for i := 0; i < z && n/2+i < n; i++ {
			pos = append(pos, n/2+i)
		}
	}
	return pos
}

func genRSCase(t *rapid.T) RSCase {
	c := RSCase{Field: rapid.IntRange(0, len(gfSpecs)-1).Draw(t, "field"), Base: rapid.IntRange(0, 1).Draw(t, "base")}
	size := gfSpecs[c.Field].Size
	maxN := size - 1
	if maxN > 600 {
		maxN = 600
	}
	ncalls := rapid.IntRange(1, 6).Draw(t, "ncalls")
	for i := 0; i < ncalls; i++ {
		var n int
		switch rapid.IntRange(0, 5).Draw(t, "nk") {
		case 0:
			n = rapid.SampledFrom([]int{1, 2, maxN, maxN - 1}).Draw(t, "nedge")
		case 1:
			if i > 0 {
				n = c.Calls[i-1].N // repeated degree
				break
			}
			fallthrough
		case 2:
			n = rapid.IntRange(1, min(maxN, 70)).Draw(t, "nsmall")
		default:
			n = rapid.IntRange(1, maxN).Draw(t, "n")
		}
		if size >= 1024 && rapid.IntRange(0, 15).Draw(t, "hugen") == 0 {
			// more check symbols than any symbology asks for (generator tables capped or kept only partly)
			n = rapid.SampledFrom([]int{601, 1023, 1024, 1025, 1100, 2047, 2048, 4095}).Draw(t, "nhuge")
			if n > size-1 {
				n = size - 1
			}
		}
		if n < 1 {
			n = 1
		}
		var dl int
		switch rapid.IntRange(0, 4).Draw(t, "dk") {
		case 0:
			dl = rapid.IntRange(0, 3).Draw(t, "dshort")
		case 1:
			dl = rapid.IntRange(200, 300).Draw(t, "dlong")
			if rapid.IntRange(0, 2).Draw(t, "verylong") == 0 { // messages longer than any block size (1024, 2048, 4096 symbols)
				dl = rapid.SampledFrom([]int{1023, 1024, 1025, 1500, 2047, 2048, 2049, 3000, 4097}).Draw(t, "dvery")
				if n > 40 {
					n = 1 + n%40
				}
			}
		default:
			dl = rapid.IntRange(1, 80).Draw(t, "dlen")
		}
		data := make([]int, dl)
		zk := rapid.IntRange(0, 7).Draw(t, "zk")
		for j := range data {
			if zk == 0 || (zk == 1 && j < dl/2) {
				continue // all zero / leading zeros
			}
			data[j] = rapid.IntRange(0, size-1).Draw(t, "d")
		}
		if zk >= 2 && zk <= 4 && dl > 0 { // check symbols with forced zeros (leading: zk 2,3)
			z := rapid.IntRange(1, min(4, min(dl, n))).Draw(t, "z")
			kind := 0
			if zk == 4 {
				kind = rapid.IntRange(1, 3).Draw(t, "zkind")
			}
			sp := gfSpecs[c.Field]
			forceZeroChecks(ref.GF2{Poly: sp.PP, Size: sp.Size}, data, n, c.Base, zeroPositions(kind, z, n))
		}
		c.Calls = append(c.Calls, RSCall{Data: data, N: n})
		if rapid.IntRange(0, 11).Draw(t, "outofdomain") == 0 {
			// an impossible request in between (more check symbols than the field has non-zero elements, or a
			// negative count): its own outcome is not judged, the requests after it are
			bad := rapid.SampledFrom([]int{size, size + 1, size + 7, 2 * size, -1}).Draw(t, "badn")
			c.Calls = append(c.Calls, RSCall{Data: []int{1, 2 % size, 3 % size}, N: bad})
		}
	}
	return c
}

func TestC17Rapid(t *testing.T) {
	st := NewStats("C17", "rapid")
	fields := make([]*utils.GaloisField, len(gfSpecs))
	for i, sp := range gfSpecs {
		fields[i] = utils.NewGaloisField(sp.PP, sp.Size, 1)
	}
	runRapid(t, st, func(rt *rapid.T) {
		switch rapid.IntRange(0, 9).Draw(rt, "what") {
		case 0, 1: // associativity on random triples (large fields)
			fi := rapid.IntRange(2, len(gfSpecs)-1).Draw(rt, "field")
			size := gfSpecs[fi].Size
			for k := 0; k < 200; k++ {
				c := GFPairCase{Field: fi, Base: 1, A: rapid.IntRange(0, size-1).Draw(rt, "a"), B: rapid.IntRange(0, size-1).Draw(rt, "b"), C: rapid.IntRange(0, size-1).Draw(rt, "c")}
				checkGFAssoc(rt, fields[fi], c)
				if c.A > 1 && c.B > 1 && c.C > 1 {
					st.NonTrivial(H("assoc", fi, c.A, c.B, c.C))
				}
			}
			st.EvalN(199)
			st.Class("assoc-triples-x200")
		case 2, 3, 4:
			fi := rapid.IntRange(0, len(gfSpecs)-1).Draw(rt, "field")
			size := gfSpecs[fi].Size
			c := PolyCase{Field: fi, A: genPoly(rt, size, "a"), B: genPoly(rt, size, "b"),
				Deg: rapid.IntRange(0, 40).Draw(rt, "deg"), Coef: rapid.IntRange(0, size-1).Draw(rt, "coef")}
			switch rapid.IntRange(0, 7).Draw(rt, "related") {
			case 0: // dividend = (drawn polynomial) x divisor: the division is exact, every partial sum cancels at the end
				rf := ref.GF2{Poly: gfSpecs[fi].PP, Size: size}
				c.A = rf.PolyMul(c.A, c.B)
				st.Class("poly: exact multiple of the divisor")
			case 1: // exact multiple plus a remainder of lower degree
				rf := ref.GF2{Poly: gfSpecs[fi].PP, Size: size}
				rem := genPoly(rt, size, "rem")
				if nb := len(ref.Norm(c.B)); len(rem) >= nb {
					rem = rem[len(rem)-nb+1:]
				}
				c.A = rf.PolyAdd(rf.PolyMul(c.A, c.B), rem)
				st.Class("poly: multiple of the divisor plus a short remainder")
			case 2: // equal operands / equal leading parts (sums that cancel completely or partly)
				c.B = append([]int(nil), c.A...)
				if k := rapid.IntRange(0, len(c.B)).Draw(rt, "keep"); k < len(c.B) {
					c.B[k] = (c.B[k] + 1) % size
				}
				st.Class("poly: operands equal up to one coefficient")
			}
			checkPoly(rt, c)
			st.Class("poly")
			if !ref.AllZero(c.A) && !ref.AllZero(c.B) {
				st.NonTrivial(H("poly", fmt.Sprint(c)))
				if len(ref.Norm(c.A)) > len(ref.Norm(c.B)) {
					st.Class("poly: deg dividend > deg divisor")
				}
			}
			if len(c.A) < 6 && len(c.B) < 4 {
				st.Sample("poly", c)
			}
		default:
			c := genRSCase(rt)
			order := checkRS(rt, c)
			for _, call := range c.Calls {
				if call.N < 1 || call.N > gfSpecs[c.Field].Size-1 {
					st.Class("rs-history containing an impossible request (outcome not judged, later calls are)")
					break
				}
			}
			st.Class("rs-history " + order)
			st.Class("rs " + gfSpecs[c.Field].Name)
			{
				sp := gfSpecs[c.Field]
				rf := ref.GF2{Poly: sp.PP, Size: sp.Size}
				for _, call := range c.Calls {
					if call.N >= 3 && !ref.AllZero(call.Data) {
						w := rf.RSRemainder(call.Data, rf.Generator(call.N, c.Base))
						if w[0] == 0 && w[1] == 0 {
							st.Class("rs: non-zero data whose check symbols start with >= 2 zeros")
						}
						if w[len(w)-1] == 0 {
							st.Class("rs: non-zero data whose last check symbol is zero")
						}
					}
				}
			}
			if len(c.Calls) >= 2 {
				st.NonTrivial(H("rs", fmt.Sprint(c)))
			}
			if len(c.Calls) <= 3 && len(c.Calls[0].Data) < 5 {
				st.Sample("rs-history "+order, c)
			}
		}
	})
}

// TestC17RSDegrees: every check-symbol count 1..min(600,size-1) of every field once, requested in
// ascending, then descending order on fresh encoders (cache growth order).
func TestC17RSDegrees(t *testing.T) {
	st := NewStats("C17", "rs-degrees")
	defer st.Flush()
	ct := &collectTB{}
	var work []RSCase
	for fi, sp := range gfSpecs {
		maxN := min(sp.Size-1, 600)
		step := 1
		if !thorough() && maxN > 300 {
			step = 7
		}
		for base := 0; base <= 1; base++ {
			asc := RSCase{Field: fi, Base: base}
			for n := 1; n <= maxN; n += step {
				asc.Calls = append(asc.Calls, RSCall{Data: []int{1, n % sp.Size, 0, (n * 7) % sp.Size, sp.Size - 1}, N: n})
				// the same degree with check symbols that start with 1..3 zeros, end with a zero, or have inner zeros
				rf := ref.GF2{Poly: sp.PP, Size: sp.Size}
				for v := 0; v < 5; v++ {
					d := []int{1 + n%(sp.Size-1), (n * 5) % sp.Size, 3, (n * 11) % sp.Size, sp.Size - 2, 7 % sp.Size}
					kind, z := 0, v+1
					if v >= 3 {
						kind, z = v-2, 2
					}
					if forceZeroChecks(rf, d, n, base, zeroPositions(kind, min(z, n), n)) {
						asc.Calls = append(asc.Calls, RSCall{Data: d, N: n})
					}
				}
			}
			desc := RSCase{Field: fi, Base: base}
			for i := len(asc.Calls) - 1; i >= 0; i-- {
				desc.Calls = append(desc.Calls, asc.Calls[i])
			}
			work = append(work, asc, desc)
		}
	}
	parallelFor(len(work), 16, func(i int) {
		if ct.Failed() {
			return
		}
		ct.guard(func() {
			checkRS(ct, work[i])
			st.EvalN(int64(len(work[i].Calls)))
			st.NonTrivialN(int64(len(work[i].Calls)))
		})
	})
	st.Set("exhaustive_domain", "check-symbol counts 1..min(600,size-1) (quick: stride 7 above 300) x 6 fields x base 0/1 x ascending/descending request order")
	if ct.Failed() {
		t.Fatalf("%s", ct.first)
	}
}

// TestC17RSConcurrent: "regardless of which degrees were requested before" includes requests that arrived
// concurrently: on a fresh encoder several goroutines request different degrees at once (each result checked
// against the reference encoder), then every degree is verified sequentially.
func TestC17RSConcurrent(t *testing.T) {
	st := NewStats("C17", "rs-concurrent")
	defer st.Flush()
	rounds := 6
	if thorough() {
		rounds = 60
	}
	seed := envInt("VERIF_RAPID_SEED", 1)
	type result struct{ msg string }
	for round := 0; round < rounds; round++ {
		for fi, sp := range gfSpecs {
			base := (round + fi) % 2
			rf := ref.GF2{Poly: sp.PP, Size: sp.Size}
			maxN := min(sp.Size-1, 400)
			enc := utils.NewReedSolomonEncoder(utils.NewGaloisField(sp.PP, sp.Size, base))
			g := 4 + (round+seed)%5
			start := make(chan struct{})
			res := make(chan result, g)
			for w := 0; w < g; w++ {
				go func(w int) {
					defer func() {
						if r := recover(); r != nil {
							res <- result{fmt.Sprintf("panic in concurrent Encode: %v", r)}
						}
					}()
					<-start
					for k := 0; k < 6; k++ {
						x := uint64(seed)*0x9E3779B97F4A7C15 + uint64(round*1000+w*37+k)*0xBF58476D1CE4E5B9
						x ^= x >> 29
						n := 1 + int(x%uint64(maxN))
						if k == 0 {
							n = 1 + (w*maxN/g+round)%maxN // spread: low, middle and high first requests
						}
						data := []int{1, int(x>>8) % sp.Size, 0, int(x>>20) % sp.Size}
						got := enc.Encode(append([]int(nil), data...), n)
						want := rf.RSRemainder(data, rf.Generator(n, base))
						if len(got) != n {
							res <- result{fmt.Sprintf("concurrent Encode(n=%d) returned %d symbols", n, len(got))}
							return
						}
						for j := range want {
							if got[j] != want[j] {
								res <- result{fmt.Sprintf("concurrent Encode(n=%d): check symbol %d is %d, reference %d", n, j, got[j], want[j])}
								return
							}
						}
					}
					res <- result{}
				}(w)
			}
			close(start)
			for w := 0; w < g; w++ {
				if r := <-res; r.msg != "" {
					failf(t, "C17", "rs-concurrent", map[string]any{"field": sp.Name, "base": base, "round": round, "goroutines": g}, "%s", r.msg)
				}
			}
			// sequential verification of every degree on the same encoder
			seq := RSCase{Field: fi, Base: base}
			step := 1
			if !thorough() {
				step = 3
			}
			for n := 1 + round%step; n <= maxN; n += step {
				seq.Calls = append(seq.Calls, RSCall{Data: []int{1, n % sp.Size, 0, 5 % sp.Size}, N: n})
			}
			for i, call := range seq.Calls {
				var got []int
				if pv := try(func() { got = enc.Encode(append([]int(nil), call.Data...), call.N) }); pv != nil {
					failf(t, "C17", "rs-concurrent", map[string]any{"field": sp.Name, "base": base, "round": round, "goroutines": g}, "after %d goroutines requested degrees concurrently, sequential Encode(n=%d): %v", g, call.N, pv)
				}
				want := rf.RSRemainder(call.Data, rf.Generator(call.N, base))
				for j := range want {
					if len(got) != call.N || got[j] != want[j] {
						failf(t, "C17", "rs-concurrent", map[string]any{"field": sp.Name, "base": base, "round": round, "goroutines": g}, "after %d goroutines requested degrees concurrently on a fresh encoder, sequential call %d Encode(n=%d) returns wrong check symbols (symbol %d)", g, i, call.N, j)
					}
				}
			}
			st.EvalN(int64(len(seq.Calls) + g*6))
			st.NonTrivialN(int64(len(seq.Calls)))
			st.Class("concurrent-then-sequential " + sp.Name)
		}
	}
	st.Sample("rs-concurrent", map[string]any{"field": "GF(4096)/0x1069", "goroutines": 5, "then": "every degree 1..400 sequentially"})
}

func init() {
	register("rs-concurrent", func(t TB, _ map[string]any) { t.Logf("schedule-dependent case: re-run the part TestC17RSConcurrent") })
}
