package props

// Contents whose Reed-Solomon check words contain zeros at chosen positions.
//
// The check words of a block start with two zeros for one random block in 65536; encoders that strip or
// re-align the remainder of the polynomial division go wrong exactly there (and nowhere else). Check words are a
// linear function of the data, so such contents can be constructed instead of waited for: the last bytes of a
// full-capacity byte-mode QR content (GF(2)-linear in the content bits) or the last codewords of a single-block
// DataMatrix content (GF(256)-linear in the codeword values) are solved for with the reference arithmetic only.

import (
	"testing"

	"verif/ref"
)

var qrRefGF = ref.GF2{Poly: 0x11D, Size: 256}
var dmRefGF = ref.GF2{Poly: 0x12D, Size: 256}

// qrByteDataCodewords: the data codewords of a byte-mode symbol (version v, level l) whose content fills it exactly
// (capacity bytes: mode 0100, count, data, 4-bit terminator, no pad codewords).
func qrByteDataCodewords(v int, content []byte) []int {
	var bits []bool
	put := func(val, n int) {
		for i := n - 1; i >= 0; i-- {
			bits = append(bits, val>>uint(i)&1 == 1)
		}
	}
	put(4, 4)
	put(len(content), ref.QRCharCountBits(v, 4))
	for _, b := range content {
		put(int(b), 8)
	}
	put(0, 4)
	out := make([]int, len(bits)/8)
	for i, b := range bits {
		if b {
			out[i/8] |= 0x80 >> uint(i%8)
		}
	}
	return out
}

// qrLastBlock returns the data codewords of the last block and its number of check words.
func qrLastBlock(v, l int, data []int) ([]int, int) {
	groups := ref.QRBlocks[v-1][l]
	g := groups[len(groups)-1]
	return data[len(data)-g.Data:], g.Total - g.Data
}

// qrForceZeroECC flips bits in the last three content bytes so that the check words of the last block are zero
// at the positions pos. content must have exactly the byte capacity of (v, l). Returns false if unsolvable.
func qrForceZeroECC(v, l int, content []byte, pos []int) bool {
	if len(content) < 4 {
		return false
	}
	ecc := func() []int {
		blk, n := qrLastBlock(v, l, qrByteDataCodewords(v, content))
		return qrRefGF.RSRemainder(blk, qrRefGF.Generator(n, 0))
	}
	pick := func(e []int) uint64 {
		var x uint64
		for _, p := range pos {
			x = x<<8 | uint64(e[p])
		}
		return x
	}
	_, n := qrLastBlock(v, l, qrByteDataCodewords(v, content))
	for _, p := range pos {
		if p >= n {
			return false
		}
	}
	base := pick(ecc())
	const unknowns = 24
	delta := make([]uint64, unknowns)
	for i := 0; i < unknowns; i++ {
		bi := len(content) - 1 - i/8
		content[bi] ^= 1 << uint(i%8)
		delta[i] = pick(ecc()) ^ base
		content[bi] ^= 1 << uint(i%8)
	}
	// Gaussian elimination over GF(2): find a subset of the deltas whose XOR is base
	type row struct {
		vec  uint64
		comb uint32
	}
	var basis []row
	for i := 0; i < unknowns; i++ {
		r := row{delta[i], 1 << uint(i)}
		for _, b := range basis {
			if r.vec^b.vec < r.vec {
				r.vec ^= b.vec
				r.comb ^= b.comb
			}
		}
		if r.vec != 0 {
			basis = append(basis, r)
		}
	}
	target, comb := base, uint32(0)
	for _, b := range basis {
		if target^b.vec < target {
			target ^= b.vec
			comb ^= b.comb
		}
	}
	if target != 0 {
		return false
	}
	for i := 0; i < unknowns; i++ {
		if comb>>uint(i)&1 == 1 {
			content[len(content)-1-i/8] ^= 1 << uint(i%8)
		}
	}
	return pick(ecc()) == 0
}

// qrZeroECCCases: for every (version up to maxV, level): full-capacity byte contents whose last block has check
// words with one / two leading zeros, a trailing zero, or an inner pair of zeros.
func qrZeroECCCases(maxV int) []QRCase {
	var out []QRCase
	for v := 1; v <= maxV; v++ {
		for l := 0; l < 4; l++ {
			n := qrCapacity(v, l, qrIndicator[3])
			_, ecc := qrLastBlock(v, l, make([]int, ref.QRDataCodewords(v, l)))
			for kind, pos := range [][]int{{0}, {0, 1}, {ecc - 1}, {ecc / 2, ecc/2 + 1}, {0, 1, 2}} {
				c := fillPattern(3, int64(v*100+l*10+kind), n)
				c[0] = 0xC3
				if qrForceZeroECC(v, l, c, pos) {
					out = append(out, QRCase{Content: BStr(c), Level: l, Mode: 3})
				}
			}
		}
	}
	return out
}

// dmZeroECCCases: single-block DataMatrix sizes, contents of exactly the data capacity (no pads) whose check words
// have zeros at the chosen positions. The last len(pos) codewords are solved for; a solution is kept only if those
// codewords are plain ASCII values that do not pair up as digits.
func dmZeroECCCases() []DMCase {
	var out []DMCase
	for si, sz := range ref.DMSizes {
		if sz.Blocks != 1 || sz.Data < 3 {
			continue
		}
		for kind, pos := range [][]int{{0}, {0, 1}, {sz.ECC - 1}, {sz.ECC / 2, sz.ECC/2 + 1}} {
			for try := 0; try < 400; try++ {
				raw := fillPattern(3, int64(si*1000+kind*100+try), sz.Data)
				data := make([]int, sz.Data)
				for i := range raw {
					ch := 'A' + raw[i]%58 // 'A'..'z': no digits, one codeword each
					raw[i] = ch
					data[i] = int(ch) + 1
				}
				if !forceZeroChecks(dmRefGF, data, sz.ECC, 1, pos) {
					continue
				}
				ok := true
				for j := 0; j < len(pos); j++ {
					v := data[sz.Data-1-j]
					if v < 1 || v > 128 || (v-1 >= '0' && v-1 <= '9') {
						ok = false
					}
					raw[sz.Data-1-j] = byte(v - 1)
				}
				if ok {
					out = append(out, DMCase{Content: BStr(raw)})
					break
				}
			}
		}
	}
	return out
}

func TestC01ZeroECC(t *testing.T) {
	st := NewStats("C01", "zero-ecc")
	defer st.Flush()
	ct := &collectTB{}
	maxV := 12
	if thorough() {
		maxV = 40
	}
	cases := qrZeroECCCases(maxV)
	parallelFor(len(cases), 16, func(i int) {
		if ct.Failed() {
			return
		}
		ct.guard(func() {
			res := checkQRRoundTrip(ct, cases[i])
			st.Eval()
			c01Account(st, cases[i], res)
			st.Class("last block's check words forced to contain zeros (leading / trailing / inner)")
		})
	})
	if len(cases) > 0 {
		st.Sample("zero-ecc", cases[0])
	}
	st.Set("zero_ecc_cases", len(cases))
	if ct.Failed() {
		t.Fatalf("%s", ct.first)
	}
}

func TestC02ZeroECC(t *testing.T) {
	st := NewStats("C02", "zero-ecc")
	defer st.Flush()
	ct := &collectTB{}
	cases := dmZeroECCCases()
	parallelFor(len(cases), 16, func(i int) {
		if ct.Failed() {
			return
		}
		ct.guard(func() {
			res := checkDMRoundTrip(ct, cases[i])
			st.Eval()
			c02Account(st, cases[i], res)
			st.Class("check words forced to contain zeros (leading / trailing / inner)")
		})
	})
	if len(cases) > 0 {
		st.Sample("zero-ecc", cases[0])
	}
	st.Set("zero_ecc_cases", len(cases))
	if ct.Failed() {
		t.Fatalf("%s", ct.first)
	}
}
