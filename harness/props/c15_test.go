package props

// C15: encoding is a pure function: deterministic, history-free (also against fresh processes),
// no modification of inputs, no aliasing of the caller's buffer.

import (
	"bytes"
	"encoding/json"
	"fmt"
	"os"
	"os/exec"
	"path/filepath"
	"sort"
	"sync"
	"testing"

	"github.com/boombuler/barcode"
	"github.com/boombuler/barcode/aztec"
	"pgregory.net/rapid"
	"verif/enc"
	"verif/ref"
)

type HistoryCase struct {
	Calls []EncSpec `json:"calls"`
}

type oneshotOut struct {
	Fingerprints      []string `json:"fingerprints"`
	AfterFingerprints []string `json:"after_fingerprints"`
	GoroutinesBefore  int      `json:"goroutines_before"`
	GoroutinesAfter   int      `json:"goroutines_after"`
}

var (
	oneshotOnce sync.Once
	oneshotBin  = map[bool]string{}
	oneshotErr  error
)

// oneshotPath returns the helper binary (built by the driver; built on demand for ad-hoc runs).
func oneshotPath(race bool) (string, error) {
	oneshotOnce.Do(func() {
		oneshotBin[false], oneshotBin[true] = os.Getenv("VERIF_ONESHOT"), os.Getenv("VERIF_ONESHOT_RACE")
		for _, r := range []bool{false, true} {
			if p := oneshotBin[r]; p != "" {
				if _, err := os.Stat(p); err == nil {
					continue
				}
			}
			dir, err := os.MkdirTemp("", "oneshot")
			if err != nil {
				oneshotErr = err
				return
			}
			out := filepath.Join(dir, "oneshot")
			args := []string{"build", "-o", out}
			if r {
				args = append(args, "-race")
			}
			args = append(args, "verif/cmd/oneshot")
			cmd := exec.Command("go", args...)
			if b, err := cmd.CombinedOutput(); err != nil {
				oneshotErr = fmt.Errorf("building oneshot: %v\n%s", err, b)
				return
			}
			oneshotBin[r] = out
		}
	})
	return oneshotBin[race], oneshotErr
}

// runOneshot executes the helper in a fresh process. exit code and stderr are returned for the caller to judge.
func runOneshot(race bool, specs []EncSpec, args ...string) (oneshotOut, string, int, error) {
	return runOneshot2(race, specs, nil, args...)
}

// runOneshot2 additionally passes calls that the helper executes sequentially after the first phase.
func runOneshot2(race bool, specs, after []EncSpec, args ...string) (oneshotOut, string, int, error) {
	var out oneshotOut
	bin, err := oneshotPath(race)
	if err != nil {
		return out, "", -1, err
	}
	in, _ := json.Marshal(map[string]any{"specs": specs, "after": after})
	cmd := exec.Command(bin, args...)
	cmd.Stdin = bytes.NewReader(in)
	cmd.Env = append(os.Environ(), "GORACE=halt_on_error=1 exitcode=66")
	var so, se bytes.Buffer
	cmd.Stdout, cmd.Stderr = &so, &se
	rerr := cmd.Run()
	code := 0
	if rerr != nil {
		if ee, ok := rerr.(*exec.ExitError); ok {
			code = ee.ExitCode()
		} else {
			return out, se.String(), -1, rerr
		}
	}
	if code == 0 {
		if err := json.Unmarshal(so.Bytes(), &out); err != nil {
			return out, se.String(), code, fmt.Errorf("oneshot output: %v (%q)", err, so.String())
		}
	}
	return out, se.String(), code, nil
}

var (
	freshMu    sync.Mutex
	freshCache = map[string]string{}
)

// freshFingerprint: the fingerprint of the call executed alone in a freshly started process.
func freshFingerprint(s EncSpec) (string, error) {
	key, _ := json.Marshal(s)
	freshMu.Lock()
	fp, ok := freshCache[string(key)]
	freshMu.Unlock()
	if ok {
		return fp, nil
	}
	out, stderr, code, err := runOneshot(false, []EncSpec{s}, "seq")
	if err != nil || code != 0 || len(out.Fingerprints) != 1 {
		return "", fmt.Errorf("fresh process failed: code %d err %v stderr %s", code, err, stderr)
	}
	freshMu.Lock()
	freshCache[string(key)] = out.Fingerprints[0]
	freshMu.Unlock()
	return out.Fingerprints[0], nil
}

// rsDegree: the Reed-Solomon degree(s) a call requests from the shared caches (0 = none).
func rsDegree(s EncSpec) int {
	switch s.Fam {
	case "qr":
		bc, err, pv := encodeSpec(s)
		if pv != nil || err != nil || nilBarcode(bc) {
			return 0
		}
		v := (bc.Bounds().Dx() - 17) / 4
		if v < 1 || v > 40 || s.A < 0 || s.A > 3 {
			return 0
		}
		g := ref.QRBlocks[v-1][s.A][0]
		return g.Total - g.Data
	case "datamatrix":
		i := ref.DMSizeFor(ref.DMAsciiCodewords(s.Content))
		if i < 0 {
			return 0
		}
		return 1000 + ref.DMSizes[i].ECC/ref.DMSizes[i].Blocks
	}
	return 0
}

type c15Outcome struct {
	rsDegrees int
	aliasing  int
	calls     int
}

func checkC15(t TB, c HistoryCase) c15Outcome {
	noteCase("C15", "purity", c)
	const P, K = "C15", "purity"
	var o c15Outcome
	o.calls = len(c.Calls)
	inproc := make([]string, len(c.Calls))
	kept := make([]barcode.Barcode, len(c.Calls))
	degs := map[int]bool{}
	for i, s := range c.Calls {
		before := append(BStr(nil), s.Content...)
		bc, err, pv := encodeSpec(s)
		inproc[i] = enc.Fingerprint(bc, err, pv)
		if err == nil && pv == nil && !nilBarcode(bc) {
			kept[i] = bc
		}
		if !bytes.Equal(before, s.Content) {
			failf(t, P, K, c, "call %d modified its input", i)
		}
		if d := rsDegree(s); d > 0 {
			degs[d] = true
		}
		// immediate repetitions
		for r := 0; r < 3; r++ {
			bc2, err2, pv2 := encodeSpec(s)
			if fp := enc.Fingerprint(bc2, err2, pv2); fp != inproc[i] {
				failf(t, P, K, c, "call %d (%s) gives a different result when repeated in the same process", i, s.Label())
			}
		}
		// results are independent objects: a caller that paints over one returned symbol through a mutator the symbol
		// exposes (QR symbols have an exported Set) must not find its paint in a symbol returned later
		if _, ok := bc.(interface{ Set(x, y int, val bool) }); ok && err == nil && pv == nil {
			if scratch, e2, p2 := encodeSpec(s); e2 == nil && p2 == nil && !nilBarcode(scratch) {
				if m, ok := scratch.(interface{ Set(x, y int, val bool) }); ok {
					b := scratch.Bounds()
					try(func() {
						for k := 0; k < b.Dx(); k++ {
							m.Set(k, 8%b.Dy(), k%2 == 0)
							m.Set(8%b.Dx(), k%b.Dy(), k%3 == 0)
							m.Set(k, k%b.Dy(), true)
						}
					})
				}
				bc3, err3, pv3 := encodeSpec(s)
				if fp := enc.Fingerprint(bc3, err3, pv3); fp != inproc[i] {
					failf(t, P, K, c, "call %d (%s): after the caller changed modules of an earlier result through its Set method, the same call returns a different barcode", i, s.Label())
				}
			}
		}
		// aliasing probe for the only []byte entry point
		if s.Fam == "aztec" && err == nil && pv == nil && len(s.Content) > 0 {
			o.aliasing++
			// the payload is a sub-slice of a larger buffer: the bytes behind it belong to the caller too
			const guard = 24
			whole := make([]byte, len(s.Content)+guard)
			copy(whole, s.Content)
			for j := len(s.Content); j < len(whole); j++ {
				whole[j] = 0xAA
			}
			buf := whole[:len(s.Content)]
			var abc barcode.Barcode
			var aerr error
			apv := try(func() {
				if s.Scheme == nil {
					abc, aerr = aztec.Encode(buf, s.A, s.B)
				} else {
					abc, aerr = aztec.EncodeWithColor(buf, s.A, s.B, s.Scheme.Scheme())
				}
			})
			if apv != nil || aerr != nil {
				failf(t, P, K, c, "call %d: second aztec encode failed: %v %v", i, apv, aerr)
			}
			if !bytes.Equal(buf, s.Content) {
				failf(t, P, K, c, "call %d: aztec.Encode modified the caller's slice", i)
			}
			for j := len(s.Content); j < len(whole); j++ {
				if whole[j] != 0xAA {
					failf(t, P, K, c, "call %d: aztec.Encode wrote into the caller's buffer behind the payload (offset +%d became %#02x)", i, j-len(s.Content), whole[j])
				}
			}
			fp1 := enc.Fingerprint(abc, nil, nil)
			if fp1 != inproc[i] {
				failf(t, P, K, c, "call %d: aztec result differs between two identical calls", i)
			}
			for j := range buf {
				buf[j] ^= 0x5A
			}
			if got := abc.Content(); got != string(s.Content) {
				failf(t, P, K, c, "call %d: Content() changed to %q after the caller overwrote its input buffer (barcode is not a snapshot)", i, truncS([]byte(got)))
			}
			if fp2 := enc.Fingerprint(abc, nil, nil); fp2 != fp1 {
				failf(t, P, K, c, "call %d: pixels/accessors changed after the caller overwrote its input buffer", i)
			}
			// the same, but the buffer is overwritten BEFORE anything is read from the barcode (lazily evaluated
			// accessors or pixels would otherwise be frozen by the first read)
			buf2 := append([]byte(nil), s.Content...)
			var lazy barcode.Barcode
			lpv := try(func() {
				if s.Scheme == nil {
					lazy, aerr = aztec.Encode(buf2, s.A, s.B)
				} else {
					lazy, aerr = aztec.EncodeWithColor(buf2, s.A, s.B, s.Scheme.Scheme())
				}
			})
			if lpv != nil || aerr != nil || nilBarcode(lazy) {
				failf(t, P, K, c, "call %d: third aztec encode failed: %v %v", i, lpv, aerr)
			}
			for j := range buf2 {
				buf2[j] = ^buf2[j]
			}
			if got := lazy.Content(); got != string(s.Content) {
				failf(t, P, K, c, "call %d: the input buffer was overwritten right after Encode returned, before anything was read from the barcode: Content() is %q (barcode is not a snapshot)", i, truncS([]byte(got)))
			}
			// the caller's buffer is reused for the next payload (same address, same length, other bytes)
			for j := range buf2 {
				buf2[j] = s.Content[len(s.Content)-1-j] ^ byte(j&1)
			}
			other := append([]byte(nil), buf2...)
			var reused, fresh barcode.Barcode
			var e1, e2 error
			if rpv := try(func() {
				reused, e1 = aztec.Encode(buf2, s.A, s.B)
				fresh, e2 = aztec.Encode(append([]byte(nil), other...), s.A, s.B)
			}); rpv != nil {
				failf(t, P, K, c, "call %d: aztec encode of a reused buffer: %v", i, rpv)
			}
			if (e1 == nil) != (e2 == nil) || (e1 == nil && enc.Fingerprint(reused, nil, nil) != enc.Fingerprint(fresh, nil, nil)) {
				failf(t, P, K, c, "call %d: a payload written into the buffer that held the previous payload gives another barcode (pixels or Content()) than the same bytes in a fresh buffer", i)
			}
			if fp3 := enc.Fingerprint(lazy, nil, nil); fp3 != inproc[i] {
				failf(t, P, K, c, "call %d: the input buffer was overwritten right after Encode returned, before anything was read from the barcode: pixels/accessors differ from those of the same call", i)
			}
		}
	}
	o.rsDegrees = len(degs)
	// every barcode returned during the history is a snapshot: later encodes must not have changed it
	for i, bc := range kept {
		if bc == nil {
			continue
		}
		if fp := enc.Fingerprint(bc, nil, nil); fp != inproc[i] {
			failf(t, P, K, c, "the barcode returned by call %d (%s) changed while later calls of the history were made", i, c.Calls[i].Label())
		}
	}
	// the same history in one fresh process
	seq, stderr, code, err := runOneshot(false, c.Calls, "seq")
	if err != nil || code == 2 {
		// the helper could not be started / could not read its input: infrastructure, not a verdict
		t.Fatalf("INFRASTRUCTURE: fresh helper process: exit %d, %v, %s", code, err, tail(stderr, 300))
	}
	if code != 0 || len(seq.Fingerprints) != len(c.Calls) {
		failf(t, P, K, c, "the history crashed a fresh process although it ran through in the test process: exit %d, %s", code, tail(stderr, 1500))
	}
	for i, s := range c.Calls {
		alone, ferr := freshFingerprint(s)
		if ferr != nil {
			t.Fatalf("INFRASTRUCTURE: call %d alone in a fresh process: %v", i, ferr)
		}
		if inproc[i] != alone {
			failf(t, P, K, c, "call %d (%s): result in the long-lived test process differs from the result of the same call alone in a fresh process", i, s.Label())
		}
		if seq.Fingerprints[i] != alone {
			failf(t, P, K, c, "call %d (%s): result as call %d of this history in a fresh process differs from the result of the same call alone in a fresh process", i, s.Label(), i)
		}
	}
	if seq.GoroutinesAfter > seq.GoroutinesBefore {
		failf(t, P, K, c, "fresh process had %d goroutines before and %d after the history", seq.GoroutinesBefore, seq.GoroutinesAfter)
	}
	return o
}

func init() { register("purity", func(t TB, c HistoryCase) { checkC15(t, c) }) }

// rsSpec builds a QR or DataMatrix call that requests a particular generator polynomial degree.
func rsSpecs() []EncSpec {
	var out []EncSpec
	seen := map[int]bool{}
	for v := 1; v <= 24; v++ {
		for l := 0; l < 4; l++ {
			g := ref.QRBlocks[v-1][l][0]
			d := g.Total - g.Data
			if seen[d] {
				continue
			}
			seen[d] = true
			out = append(out, EncSpec{Fam: "qr", Content: BStr(fillPattern(3, int64(v*4+l), qrCapacity(v, l, 4))), A: l, B: 3})
		}
	}
	for i, s := range ref.DMSizes {
		d := 1000 + s.ECC/s.Blocks
		if seen[d] {
			continue
		}
		seen[d] = true
		out = append(out, EncSpec{Fam: "datamatrix", Content: BStr(dmFit(nil, s.Data, byte('a'+i)))})
	}
	return out
}

var rsPool = rsSpecs()

func genHistory(t *rapid.T) HistoryCase {
	var c HistoryCase
	n := rapid.IntRange(1, 12).Draw(t, "ncalls")
	if rapid.IntRange(0, 9).Draw(t, "long") == 0 {
		n = rapid.IntRange(13, 40).Draw(t, "nlong")
	}
	kind := rapid.IntRange(0, 3).Draw(t, "hkind")
	for i := 0; i < n; i++ {
		switch {
		case kind <= 1 || rapid.IntRange(0, 2).Draw(t, "rs") == 0:
			c.Calls = append(c.Calls, rsPool[rapid.IntRange(0, len(rsPool)-1).Draw(t, "pool")])
		default:
			s := genEncSpec(t, rapid.SampledFrom([]int{0, 1, 1}).Draw(t, "size"))
			if rapid.IntRange(0, 3).Draw(t, "col") == 0 {
				s.Scheme = genScheme(t)
			}
			c.Calls = append(c.Calls, s)
		}
	}
	if kind == 0 || kind == 1 {
		// order the RS degrees ascending / descending (the generator cache grows on demand)
		sort.SliceStable(c.Calls, func(a, b int) bool {
			da, db := rsDegree(c.Calls[a]), rsDegree(c.Calls[b])
			if kind == 0 {
				return da < db
			}
			return da > db
		})
	}
	if rapid.IntRange(0, 3).Draw(t, "utilsfirst") == 0 {
		// the application uses the exported utils API with its own field parameters before (or between) the encodes
		at := rapid.IntRange(0, len(c.Calls)).Draw(t, "utilsat") % 2 * rapid.IntRange(0, len(c.Calls)).Draw(t, "utilspos")
		u := EncSpec{Fam: "utils", A: rapid.IntRange(0, 5).Draw(t, "utilsvariant")}
		c.Calls = append(c.Calls[:at], append([]EncSpec{u}, c.Calls[at:]...)...)
	}
	if rapid.IntRange(0, 2).Draw(t, "relative") == 0 {
		// a near-twin right after (or before) one of the calls: the same content with one parameter changed, or the same
		// parameters with a content of the same length and class (state remembered under a key that leaves something out)
		k := rapid.IntRange(0, len(c.Calls)-1).Draw(t, "relof")
		r := relativeOf(t, c.Calls[k])
		at := k + rapid.IntRange(0, 1).Draw(t, "relafter")
		if len(r.Content) < len(c.Calls[k].Content) && r.Fam == c.Calls[k].Fam {
			at = k // a prefix goes immediately before the call that extends it
		}
		c.Calls = append(c.Calls[:at], append([]EncSpec{r}, c.Calls[at:]...)...)
	}
	if rapid.IntRange(0, 3).Draw(t, "repeat") == 0 && len(c.Calls) > 1 {
		c.Calls = append(c.Calls, c.Calls[0])
	}
	if rapid.IntRange(0, 3).Draw(t, "twin") == 0 {
		// two consecutive calls with different payloads of equal length and equal CRC-32 (memoisation keyed by a checksum)
		fam := rapid.SampledFrom([]string{"aztec", "aztec", "pdf417", "datamatrix", "qr"}).Draw(t, "twinfam")
		n := rapid.IntRange(5, 40).Draw(t, "twinlen")
		a := make([]byte, n)
		for i := range a {
			a[i] = "ABCDEFGHIJ0123456789-abcdef ,.:"[rapid.IntRange(0, 30).Draw(t, "tw")]
		}
		s1 := EncSpec{Fam: fam, Content: BStr(a), A: map[string]int{"aztec": 33, "pdf417": 2, "qr": 1}[fam], B: map[string]int{"qr": 3}[fam]}
		s2 := s1
		s2.Content = BStr(crcTwin(a, rapid.IntRange(0, 1000).Draw(t, "twseed")))
		c.Calls = append(c.Calls, s1, s2, s1)
	}
	return c
}

// relativeOf derives a near-twin of a call.
func relativeOf(t *rapid.T, s EncSpec) EncSpec {
	r := s
	r.Content = append(BStr(nil), s.Content...)
	kind := rapid.IntRange(0, 6).Draw(t, "relkind")
	if kind >= 5 && len(s.Content) >= 2 {
		// a proper prefix (the call is then an extension of its relative: resumable / incremental computations), cut
		// anywhere, also in the middle of a two-character code or a multi-byte rune
		cut := rapid.IntRange(1, len(s.Content)-1).Draw(t, "relcut")
		if rapid.Bool().Draw(t, "paircut") { // prefer a cut inside a two-character code (". " ", " ": " CR LF) or a digit pair
			for i := 0; i+1 < len(s.Content); i++ {
				j := (cut + i) % (len(s.Content) - 1)
				a, b := s.Content[j], s.Content[j+1]
				if (b == ' ' && (a == '.' || a == ',' || a == ':')) || (a == '\r' && b == '\n') || (a >= '0' && a <= '9' && b >= '0' && b <= '9') {
					cut = j + 1
					break
				}
			}
		}
		r.Content = r.Content[:cut]
		return r
	}
	if kind <= 1 { // one parameter changed
		switch s.Fam {
		case "qr":
			if rapid.Bool().Draw(t, "rellevel") {
				r.A = (s.A + 1 + rapid.IntRange(0, 2).Draw(t, "dl")) % 4
			} else if s.B == 0 {
				r.B = rapid.IntRange(1, 3).Draw(t, "relmode")
			} else {
				r.B = 0
			}
		case "aztec":
			if rapid.Bool().Draw(t, "relpct") {
				r.A = s.A + rapid.SampledFrom([]int{1, 10, 27}).Draw(t, "dp")
			} else if s.B == 0 {
				r.B = rapid.SampledFrom([]int{-4, 4, 7, 12}).Draw(t, "rellayers")
			} else {
				r.B = 0
			}
		case "pdf417":
			r.A = (s.A + 1) % 9
		case "code39", "code93":
			if rapid.Bool().Draw(t, "relf1") {
				r.F1 = !s.F1
			} else {
				r.F2 = !s.F2
			}
		case "code128":
			r.Fam = "code128nc"
		case "code128nc":
			r.Fam = "code128"
		case "2of5":
			r.Fam = "itf"
		case "itf":
			r.Fam = "2of5"
		default:
			kind = 2
		}
		if kind <= 1 {
			if rapid.IntRange(0, 3).Draw(t, "relcol") == 0 {
				r.Scheme = genScheme(t)
			}
			return r
		}
	}
	n := len(r.Content)
	switch {
	case n == 0:
	case kind == 2: // reversed
		for i, j := 0, n-1; i < j; i, j = i+1, j-1 {
			r.Content[i], r.Content[j] = r.Content[j], r.Content[i]
		}
	case kind == 3: // rotated by one
		r.Content = append(r.Content[1:], r.Content[0])
	default: // two characters swapped
		i, j := rapid.IntRange(0, n-1).Draw(t, "swi"), rapid.IntRange(0, n-1).Draw(t, "swj")
		r.Content[i], r.Content[j] = r.Content[j], r.Content[i]
	}
	return r
}

func TestC15Rapid(t *testing.T) {
	st := NewStats("C15", "rapid")
	runRapid(t, st, func(rt *rapid.T) {
		c := genHistory(rt)
		o := checkC15(rt, c)
		st.ClassN("calls", int64(o.calls))
		st.ClassN("aliasing probes", int64(o.aliasing))
		if o.rsDegrees >= 2 {
			st.Class("history with >= 2 distinct RS degrees")
		}
		if o.rsDegrees >= 2 || o.aliasing > 0 {
			b, _ := json.Marshal(c)
			st.NonTrivial(H(b))
		}
		for _, s := range c.Calls {
			st.Cover("families", s.Fam)
		}
		if len(c.Calls) <= 3 && len(c.Calls[0].Content) < 12 {
			st.Sample(fmt.Sprintf("history of %d", len(c.Calls)), c)
		}
	})
	freshMu.Lock()
	st.Set("distinct_calls_run_alone_in_fresh_processes", len(freshCache))
	freshMu.Unlock()
}

// TestC15Orders: the full pool of RS degrees requested ascending, descending and in three fixed
// shuffles, each history in its own fresh process, every call compared with its alone result.
func TestC15Orders(t *testing.T) {
	st := NewStats("C15", "orders")
	defer st.Flush()
	ct := &collectTB{}
	n := len(rsPool)
	orders := [][]int{}
	asc := make([]int, n)
	for i := range asc {
		asc[i] = i
	}
	sort.SliceStable(asc, func(a, b int) bool { return rsDegree(rsPool[asc[a]]) < rsDegree(rsPool[asc[b]]) })
	desc := make([]int, n)
	for i := range desc {
		desc[i] = asc[n-1-i]
	}
	orders = append(orders, asc, desc)
	for _, mul := range []int{7, 11, 13} {
		o := make([]int, n)
		for i := range o {
			o[i] = (i*mul + 3) % n
		}
		seen := map[int]bool{}
		ok := true
		for _, v := range o {
			if seen[v] {
				ok = false
			}
			seen[v] = true
		}
		if ok {
			orders = append(orders, o)
		}
	}
	parallelFor(len(orders), 8, func(i int) {
		if ct.Failed() {
			return
		}
		ct.guard(func() {
			var c HistoryCase
			for _, k := range orders[i] {
				c.Calls = append(c.Calls, rsPool[k])
			}
			o := checkC15(ct, c)
			st.Eval()
			st.ClassN("calls", int64(o.calls))
			b, _ := json.Marshal(orders[i])
			st.NonTrivial(H(b))
		})
	})
	// QR boundary pairs (see C13 twin histories): two calls at one level in different modes, both at capacity
	// boundaries; here judged as histories: [X, Y] in a fresh process against X and Y alone in fresh processes.
	// A rotating sample (by VERIF_SEED) of the versions below 20; the complete set runs in C13 with the size oracle.
	pairs, _ := qrBoundaryPairs([]int{0, 1, 2, 3}, false, true)
	rev, _ := qrBoundaryPairs([]int{0, 1, 2, 3}, true, true)
	pairs = append(pairs, rev...)
	want := 40
	if thorough() {
		want = 400
	}
	var picked []HistoryCase
	for k, off := 0, envInt("VERIF_SEED", 0); len(picked) < want && k < len(pairs); k++ {
		h := pairs[(off*7919+k*(len(pairs)/want+1))%len(pairs)]
		if len(h.Calls[0].Content) > 1300 || len(h.Calls[1].Content) > 1300 {
			continue
		}
		var c HistoryCase
		for _, q := range h.Calls {
			c.Calls = append(c.Calls, EncSpec{Fam: "qr", Content: q.Content, A: q.Level, B: q.Mode})
		}
		picked = append(picked, c)
	}
	// pairs of calls whose arguments read the same once written one after the other without a delimiter (payload "A3"
	// with 3 % against payload "A" with 33 %): a memo whose key is such a concatenation confuses exactly these
	for _, q := range [][4]any{{"A", 33, "A3", 3}, {"AZTEC 1", 25, "AZTEC 12", 5}, {"x", 90, "x9", 0}, {"7", 71, "77", 1}, {"code 10", 10, "code 101", 0}, {"\x80", 23, "\x802", 3}} {
		for _, layers := range []int{0, 4, -3} {
			a := EncSpec{Fam: "aztec", Content: BStr(q[0].(string)), A: q[1].(int), B: layers}
			b := EncSpec{Fam: "aztec", Content: BStr(q[2].(string)), A: q[3].(int), B: layers}
			picked = append(picked, HistoryCase{Calls: []EncSpec{a, b}}, HistoryCase{Calls: []EncSpec{b, a}})
		}
	}
	// twins of intermediate representations (QR codeword streams with equal 32-bit digests) as two-call histories
	for _, vl := range [][2]int{{2, 1}, {5, 2}} {
		for _, p := range qrStreamTwins(vl[0], vl[1], 1) {
			var c HistoryCase
			for _, content := range [][]byte{p.A, p.B} {
				c.Calls = append(c.Calls, EncSpec{Fam: "qr", Content: BStr(content), A: vl[1], B: 0})
			}
			picked = append(picked, c)
		}
	}
	// a call right after a call whose content is a proper prefix of its own, the cut going through a multi-character
	// unit of the symbology (two-character Aztec codes, digit pairs and triples, the 13-digit numeric threshold of
	// PDF417, Code 128 code-set-C runs, full-ASCII shift pairs): incremental / resumable computations
	for _, pe := range []struct {
		fam    string
		a, b   int
		f1, f2 bool
		pre    string
		ext    string
	}{
		{"aztec", 23, 0, false, false, "HELLO.", " WORLD"}, {"aztec", 23, 0, false, false, "line one\r", "\nline two"}, {"aztec", 33, 0, false, false, "A,", " B, C"},
		{"aztec", 10, 2, false, false, "12:", " 30: 45"}, {"aztec", 23, 0, false, false, "abc", "DEF"}, {"aztec", 23, 0, false, false, "99", "9.9"}, {"aztec", 0, 0, false, false, "\x80\x81", "\x82 end"},
		{"pdf417", 2, 0, false, false, "ABC 123456789012", "3 tail"}, {"pdf417", 0, 0, false, false, "abc\xc8\xc9\xca\xcb\xcc", "\xcd"}, {"pdf417", 4, 0, false, false, "Text;", " more"},
		{"code128", 0, 0, false, false, "A1", "234"}, {"code128", 0, 0, false, false, "A123", "4"}, {"code128", 0, 0, false, false, "ab\x01", "\x02c"}, {"code128nc", 0, 0, false, false, "12ñ3", "4"},
		{"qr", 1, 0, false, false, "12", "3"}, {"qr", 2, 0, false, false, "HELLO WORL", "D"}, {"qr", 0, 0, false, false, "1234567", "a"}, {"qr", 3, 2, false, false, "AB", "C"},
		{"datamatrix", 0, 0, false, false, "1", "2"}, {"datamatrix", 0, 0, false, false, "AB1", "2C"}, {"datamatrix", 0, 0, false, false, "x\x80", "\x81"},
		{"code39", 0, 0, true, true, "a", "b"}, {"code39", 0, 0, false, true, "A+", "B"}, {"code93", 0, 0, true, true, "a", "B"}, {"code93", 0, 0, true, false, "A", "B"},
		{"codabar", 0, 0, false, false, "A1B", ""}, {"2of5", 0, 0, false, false, "12", "3"}, {"itf", 0, 0, false, false, "12", "34"}, {"ean", 0, 0, false, false, "1234567", "01234"},
	} {
		if pe.ext == "" {
			continue
		}
		var c HistoryCase
		c.Calls = append(c.Calls, EncSpec{Fam: pe.fam, Content: BStr(pe.pre), A: pe.a, B: pe.b, F1: pe.f1, F2: pe.f2}, EncSpec{Fam: pe.fam, Content: BStr(pe.pre + pe.ext), A: pe.a, B: pe.b, F1: pe.f1, F2: pe.f2})
		picked = append(picked, c)
	}
	parallelFor(len(picked), 8, func(i int) {
		if ct.Failed() {
			return
		}
		ct.guard(func() {
			o := checkC15(ct, picked[i])
			st.Eval()
			st.ClassN("calls", int64(o.calls))
			st.Class("QR boundary pair history")
			b, _ := json.Marshal(picked[i])
			st.NonTrivial(H(b))
		})
	})
	st.Set("rs_degree_pool", n)
	st.Sample("order", map[string]any{"order_of_rs_pool_indices": orders[len(orders)-1]})
	if ct.Failed() {
		t.Fatalf("%s", ct.first)
	}
}

// checkDeterminism: one call repeated n times in this process must always give the same barcode
// (map iteration order, pooled buffers, lazily built tables must not show).
func checkDeterminism(t TB, s EncSpec) bool {
	noteCase("C15", "determinism", s)
	bc, err, pv := encodeSpec(s)
	first := enc.Fingerprint(bc, err, pv)
	for r := 1; r < 12; r++ {
		bc2, err2, pv2 := encodeSpec(s)
		if fp := enc.Fingerprint(bc2, err2, pv2); fp != first {
			failf(t, "C15", "determinism", s, "repetition %d of the same call (%s) in the same process returned a different barcode", r, s.Label())
		}
	}
	return err == nil && pv == nil
}

func init() { register("determinism", func(t TB, s EncSpec) { checkDeterminism(t, s) }) }

// TestC15Determinism: many single calls, 12 executions each, weighted to the encoders that search or use
// map-based tables (Aztec, PDF417, Code 128, Code 39/93).
func TestC15Determinism(t *testing.T) {
	st := NewStats("C15", "determinism")
	runRapid(t, st, func(rt *rapid.T) {
		fam := rapid.SampledFrom([]string{"aztec", "aztec", "aztec", "pdf417", "pdf417", "code128", "code39", "code93", "qr", "datamatrix", "codabar", "ean", "2of5", "itf", "code128nc"}).Draw(rt, "fam")
		s := genEncSpecFam(rt, fam, rapid.SampledFrom([]int{0, 1, 1}).Draw(rt, "size"))
		if fam == "aztec" && rapid.Bool().Draw(rt, "ties") {
			// characters that exist in several Aztec modes at equal cost: bare CR, space, comma, period
			n := rapid.IntRange(1, 12).Draw(rt, "n")
			b := make([]byte, n)
			for i := range b {
				b[i] = rapid.SampledFrom([]byte("\r \r.,:;AB a1\n!")).Draw(rt, "tie")
			}
			s.Content = BStr(b)
		}
		if rapid.IntRange(0, 3).Draw(rt, "col") == 0 {
			s.Scheme = genScheme(rt)
		}
		ok := checkDeterminism(rt, s)
		st.Class(fmt.Sprintf("%s accepted=%v", fam, ok))
		if ok {
			j, _ := json.Marshal(s)
			st.NonTrivial(H(j))
		}
		if len(s.Content) < 10 {
			st.Sample("determinism "+fam, s)
		}
	})
}

// TestC15Eviction: one call, then tens of thousands of DIFFERENT small calls of the same family, then the first call
// again: a bounded memo (ring of the N most recent contents, LRU of M entries) that recycles its slots wrongly serves
// a stale or foreign entry for the early content. The repeated call must equal its first result (in-process; the first
// result itself is compared with a fresh process by the other parts). 20000 calls for the 1D families, 9000 for the 2D.
func TestC15Eviction(t *testing.T) {
	st := NewStats("C15", "eviction")
	defer st.Flush()
	ct := &collectTB{}
	type fam struct {
		spec  EncSpec
		n     int
		other func(i int) BStr
	}
	digits := func(n int) func(i int) BStr {
		return func(i int) BStr { return BStr(fmt.Sprintf("%0*d", n, i)) }
	}
	c39 := func(i int) BStr { return BStr(fmt.Sprintf("K%X-%d", i, i%7)) }
	fams := []fam{
		{EncSpec{Fam: "code39", Content: BStr("A"), F1: true}, 20000, c39}, {EncSpec{Fam: "code39", Content: BStr("first call"), F1: true, F2: true}, 20000, func(i int) BStr { return BStr(fmt.Sprintf("k%x/%d", i, i%5)) }},
		{EncSpec{Fam: "code93", Content: BStr("A1"), F1: true}, 20000, c39}, {EncSpec{Fam: "code128", Content: BStr("First 128")}, 20000, func(i int) BStr { return BStr(fmt.Sprintf("c%d\x01%x", i, i)) }},
		{EncSpec{Fam: "code128nc", Content: BStr("1234")}, 20000, digits(6)}, {EncSpec{Fam: "ean", Content: BStr("1234567")}, 20000, digits(7)}, {EncSpec{Fam: "ean", Content: BStr("590123412345")}, 20000, digits(12)},
		{EncSpec{Fam: "codabar", Content: BStr("A12-3$B")}, 20000, func(i int) BStr { return BStr(fmt.Sprintf("B%d-%dC", i, i%9)) }}, {EncSpec{Fam: "2of5", Content: BStr("12345")}, 20000, digits(6)},
		{EncSpec{Fam: "itf", Content: BStr("123456")}, 20000, digits(8)},
		{EncSpec{Fam: "qr", Content: BStr("FIRST QR SYMBOL, LARGER THAN THE ONES THAT FOLLOW 0123456789"), A: 1, B: 0}, 9000, func(i int) BStr { return BStr(fmt.Sprintf("qr %d/%x", i, i)) }}, {EncSpec{Fam: "datamatrix", Content: BStr("first DataMatrix symbol, larger than the ones that follow: 0123456789 abcdefghij")}, 20000, func(i int) BStr { return BStr(fmt.Sprintf("dm%d", i)) }},
		{EncSpec{Fam: "aztec", Content: BStr("First Aztec"), A: 33}, 9000, func(i int) BStr { return BStr(fmt.Sprintf("az %d.", i)) }}, {EncSpec{Fam: "pdf417", Content: BStr("First PDF417"), A: 1}, 9000, func(i int) BStr { return BStr(fmt.Sprintf("pdf %d;", i)) }},
	}
	parallelFor(len(fams), 16, func(k int) {
		if ct.Failed() {
			return
		}
		f := fams[k]
		ct.guard(func() {
			bc, err, pv := encodeSpec(f.spec)
			first := enc.Fingerprint(bc, err, pv)
			probes := []EncSpec{f.spec}
			fps := []string{first}
			// the first call is repeated after exactly 255, 256, 257, 8192, 32768, 65535 and 65536 other calls (run
			// counters and stamps kept in 8 or 16 bits wrap around there), counted from its previous occurrence
			targets := []int{255, 256, 257, 8192}
			if f.n >= 20000 || thorough() {
				targets = append(targets, 32768, 65535, 65536)
			}
			since, ti, total := 0, 0, 0
			for i := 0; ti < len(targets) || i < f.n; i++ {
				o := f.spec
				o.Content = f.other(i)
				obc, oerr, opv := encodeSpec(o)
				total++
				if i < 3 || i == 4000 {
					probes = append(probes, o)
					fps = append(fps, enc.Fingerprint(obc, oerr, opv))
				}
				since++
				if ti < len(targets) && since == targets[ti] {
					bcx, errx, pvx := encodeSpec(f.spec)
					if fp := enc.Fingerprint(bcx, errx, pvx); fp != first {
						failf(ct, "C15", "purity", HistoryCase{Calls: []EncSpec{f.spec}}, "the call (%s, content %q) returns a different barcode when it is repeated after exactly %d other %s calls", f.spec.Label(), truncS(f.spec.Content), targets[ti], f.spec.Fam)
					}
					since, ti = 0, ti+1
				}
			}
			f.n = total
			for j, p := range probes {
				bc2, err2, pv2 := encodeSpec(p)
				if fp := enc.Fingerprint(bc2, err2, pv2); fp != fps[j] {
					failf(ct, "C15", "purity", HistoryCase{Calls: []EncSpec{p}}, "the call (%s, content %q) returns a different barcode after %d other %s calls than it returned before them", p.Label(), truncS(p.Content), f.n, p.Fam)
				}
			}
			st.EvalN(int64(f.n))
			st.NonTrivial(H("eviction", f.spec.Fam, f.spec.Content))
			st.Class("early call repeated after " + fmt.Sprint(f.n) + " other calls of its family")
		})
	})
	if ct.Failed() {
		t.Fatalf("%s", ct.first)
	}
}
