package props

// Boundary seeking: test points found by OBSERVING the implementation rather than by the reference tables.
//
// The sweeps and the capacity-directed generators put their cases where the STANDARD says a symbol size ends.
// An encoder whose own size decision sits elsewhere for some content shape (a mixed-mode optimisation, a
// fast path, an estimate that is a few bits off for one class of content) has its critical inputs at ITS
// transitions. A growing content family f(n) = prefix + fill(n) + suffix is drawn; the smallest n at which the
// symbol the implementation returns becomes larger than a drawn target size is found by bisection (13 or so
// encodes), and the full check of the property runs on f(n-2) .. f(n+1). All choices are rapid draws, so the
// case shrinks and replays like any other; what is reported is the single failing content.

import (
	"pgregory.net/rapid"
	"verif/ref"
)

// seekSmallest returns the smallest n in [lo, hi] with pred(n), assuming pred is monotone; hi+1 if !pred(hi).
func seekSmallest(lo, hi int, pred func(int) bool) int {
	if lo > hi || !pred(hi) {
		return hi + 1
	}
	for lo < hi {
		mid := (lo + hi) / 2
		if pred(mid) {
			hi = mid
		} else {
			lo = mid + 1
		}
	}
	return lo
}

// seekAround: the lengths to test around a transition found at n (n is the first length beyond the target size).
func seekAround(n, hi int) []int {
	var out []int
	for _, k := range []int{n - 2, n - 1, n, n + 1} {
		if k >= 0 && k <= hi+1 {
			out = append(out, k)
		}
	}
	return out
}

type growFamily struct {
	Prefix, Suffix []byte
	Class          int
	Seed           int64
}

const seekAlphabet = "0123456789ABCXYZ $%*+-./:abcxyz!#&'(),;<=>?@[]^_{|}~\r\n\t\x00\x7f\x80\xc3\xa9\xe6\x97\xa5\xff"

// genSmallBytes: empty, a run of digits, a run of upper-case letters, or arbitrary characters (one case in four each).
func genSmallBytes(t *rapid.T, label string, maxLen int) []byte {
	switch kind := rapid.IntRange(0, 3).Draw(t, label+"kind"); kind {
	case 0:
		return nil
	case 1, 2:
		n := rapid.IntRange(1, 3*maxLen).Draw(t, label+"runlen")
		out := make([]byte, n)
		for i := range out {
			if kind == 1 {
				out[i] = byte('0' + rapid.IntRange(0, 9).Draw(t, label+"d"))
			} else {
				out[i] = byte('A' + rapid.IntRange(0, 25).Draw(t, label+"u"))
			}
		}
		return out
	}
	n := rapid.IntRange(0, maxLen).Draw(t, label+"len")
	out := make([]byte, n)
	for i := range out {
		out[i] = seekAlphabet[rapid.IntRange(0, len(seekAlphabet)-1).Draw(t, label)]
	}
	return out
}

// mixedFill: class >= 10 selects periodic mixtures (digit runs + text, text + bytes, pairs of punctuation ...).
var mixedPeriods = []string{
	"1234567ab!", "9081726354 ABC", "a1b2c3", "Hello, World. 12345678901234567890 ", ". , : \r\n", "A\x80B\x81", "00000000000000000000x",
	"abcdefghijklmnopqrstuvwxyz0123456789", "\xe6\x97\xa5\xe6\x9c\xac12", "AAAAAAAAAAAAAAAAAAAAAAAAAAAAAAAAAAAAAAAAAAAAA:",
}

func mixedFill(class int, seed int64, n int) []byte {
	p := mixedPeriods[(class-10)%len(mixedPeriods)]
	out := make([]byte, n)
	off := int(seed % int64(len(p)))
	for i := range out {
		out[i] = p[(i+off)%len(p)]
	}
	return out
}

func (g growFamily) at(n int, fill func(class int, seed int64, n int) []byte) []byte {
	out := append([]byte(nil), g.Prefix...)
	if g.Class >= 10 {
		out = append(out, mixedFill(g.Class, g.Seed, n)...)
	} else {
		out = append(out, fill(g.Class, g.Seed, n)...)
	}
	return append(out, g.Suffix...)
}

// ---- QR -------------------------------------------------------------------------------------------

// genQRSeek returns the cases around one size transition of the implementation.
func genQRSeek(t *rapid.T) []QRCase {
	level := rapid.IntRange(0, 3).Draw(t, "level")
	mode := rapid.SampledFrom([]int{0, 0, 0, 3, 3, 1, 2}).Draw(t, "mode")
	g := growFamily{Seed: int64(rapid.IntRange(0, 1<<30).Draw(t, "fill"))}
	switch mode {
	case 1, 2:
		g.Class = mode
		g.Prefix = fillPattern(mode, g.Seed+1, rapid.IntRange(0, 5).Draw(t, "plen"))
	default:
		g.Class = rapid.SampledFrom([]int{1, 1, 2, 3, 10, 11, 12, 13, 14, 15, 16, 17, 18, 19}).Draw(t, "class")
		g.Prefix, g.Suffix = genSmallBytes(t, "prefix", 12), genSmallBytes(t, "suffix", 12)
	}
	target := costWeightedVersion(t)
	const hi = 7100
	size := func(n int) int {
		bc, err, _ := qrEncode(QRCase{Content: BStr(g.at(n, fillPattern)), Level: level, Mode: mode})
		if err != nil || nilBarcode(bc) {
			return 41
		}
		return (bc.Bounds().Dx() - 17) / 4
	}
	// window around the length the tables suggest, widened if the transition is not inside
	est := qrCapacity(target, level, qrIndicator[3])
	lo, top := 0, min(hi, 4*est+40)
	if size(top) <= target {
		top = hi
	}
	n := seekSmallest(lo, top, func(k int) bool { return size(k) > target })
	var out []QRCase
	for _, k := range seekAround(n, hi) {
		out = append(out, QRCase{Content: BStr(g.at(k, fillPattern)), Level: level, Mode: mode})
	}
	return out
}

// ---- DataMatrix -----------------------------------------------------------------------------------

func dmFill(class int, seed int64, n int) []byte {
	out := fillPattern(3, seed, n)
	for i := range out {
		switch class {
		case 1:
			out[i] = '0' + out[i]%10
		case 2:
			out[i] = 'A' + out[i]%26
		case 3:
			out[i] |= 0x80
		}
	}
	return out
}

func genDMSeek(t *rapid.T) []DMCase {
	g := growFamily{Seed: int64(rapid.IntRange(0, 1<<30).Draw(t, "fill")),
		Class:  rapid.SampledFrom([]int{0, 1, 1, 2, 3, 10, 11, 12, 13, 15, 16, 17}).Draw(t, "class"),
		Prefix: genSmallBytes(t, "prefix", 8), Suffix: genSmallBytes(t, "suffix", 8)}
	target := rapid.IntRange(0, 23).Draw(t, "size")
	if rapid.Bool().Draw(t, "small") {
		target = rapid.IntRange(0, 10).Draw(t, "smallsize")
	}
	width := ref.DMSizes[target].N
	const hi = 3300
	size := func(n int) int {
		bc, err, _ := dmEncode(DMCase{Content: BStr(g.at(n, dmFill))})
		if err != nil || nilBarcode(bc) {
			return 1 << 20
		}
		return bc.Bounds().Dx()
	}
	n := seekSmallest(0, hi, func(k int) bool { return size(k) > width })
	var out []DMCase
	for _, k := range seekAround(n, hi) {
		out = append(out, DMCase{Content: BStr(g.at(k, dmFill))})
	}
	return out
}

// ---- Aztec ----------------------------------------------------------------------------------------

func aztecFill(class int, seed int64, n int) []byte {
	out := fillPattern(3, seed, n)
	for i := range out {
		switch class {
		case 1:
			out[i] = '0' + out[i]%10
		case 2:
			out[i] = 'A' + out[i]%26
		case 3:
			out[i] |= 0x80
		case 4:
			out[i] = 'a' + out[i]%26
		case 5:
			out[i] = aztecPunctSample[int(out[i])%len(aztecPunctSample)]
		case 6:
			out[i] = []byte{0x00, 0xff}[int(out[i])%2] // stuffing-heavy
		}
	}
	return out
}

const aztecPunctSample = "!\"#$%&'()*+,-./:;<=>?[]{}@\\^_`|~"

func genAztecSeek(t *rapid.T) []AztecCase {
	g := growFamily{Seed: int64(rapid.IntRange(0, 1<<30).Draw(t, "fill")),
		Class:  rapid.SampledFrom([]int{0, 1, 2, 3, 4, 5, 6, 10, 11, 13, 14, 15, 17}).Draw(t, "class"),
		Prefix: genSmallBytes(t, "prefix", 8), Suffix: genSmallBytes(t, "suffix", 8)}
	pct := rapid.SampledFrom([]int{0, 5, 10, 23, 23, 33, 50, 90}).Draw(t, "pct")
	// target width: compact 15..27, full 19..151
	target := rapid.SampledFrom([]int{15, 19, 23, 27, 31, 37, 41, 45, 49, 53, 57, 61, 67, 71, 75, 79, 83, 87, 91, 95, 101, 105, 109, 113, 117, 121, 125, 131, 135, 139, 143, 147}).Draw(t, "width")
	if rapid.Bool().Draw(t, "small") {
		target = rapid.SampledFrom([]int{15, 19, 23, 27, 31, 37, 41}).Draw(t, "smallwidth")
	}
	const hi = 8200
	size := func(n int) int {
		bc, err, _ := aztecEncode(AztecCase{Payload: BStr(g.at(n, aztecFill)), ECC: pct})
		if err != nil || nilBarcode(bc) {
			return 1 << 20
		}
		return bc.Bounds().Dx()
	}
	top := min(hi, target*target/2+60)
	if size(top) <= target {
		top = hi
	}
	n := seekSmallest(0, top, func(k int) bool { return size(k) > target })
	var out []AztecCase
	for _, k := range seekAround(n, hi) {
		if k == 0 && len(g.Prefix)+len(g.Suffix) == 0 {
			continue
		}
		out = append(out, AztecCase{Payload: BStr(g.at(k, aztecFill)), ECC: pct})
	}
	return out
}

// ---- PDF417 ---------------------------------------------------------------------------------------

func pdfFill(class int, seed int64, n int) []byte {
	out := fillPattern(3, seed, n)
	for i := range out {
		switch class {
		case 1:
			out[i] = '0' + out[i]%10
		case 2:
			out[i] = 'A' + out[i]%26
		case 3:
			out[i] = 0x80 | out[i]&0x3f // never valid UTF-8 on its own
		case 4:
			out[i] = 'a' + out[i]%26
		case 5:
			out[i] = pdfPunctSample[int(out[i])%len(pdfPunctSample)]
		}
	}
	return out
}

const pdfPunctSample = ";<>@[\\]_`~!\r\t,:\n-.$/\"|*()?{}'"

func genPDFSeek(t *rapid.T) []PDFCase {
	g := growFamily{Seed: int64(rapid.IntRange(0, 1<<30).Draw(t, "fill")),
		Class:  rapid.SampledFrom([]int{0, 1, 1, 2, 3, 4, 5, 10, 11, 12, 13, 14, 15, 16, 17}).Draw(t, "class"),
		Prefix: genSmallBytes(t, "prefix", 8), Suffix: genSmallBytes(t, "suffix", 8)}
	level := rapid.IntRange(0, 8).Draw(t, "level")
	const hi = 2800
	size := func(n int) int {
		bc, err, _ := pdfEncode(PDFCase{Content: BStr(g.at(n, pdfFill)), Level: level})
		if err != nil || nilBarcode(bc) {
			return 1 << 30
		}
		return bc.Bounds().Dx() * bc.Bounds().Dy()
	}
	// target: the area of the symbol of a drawn length; the transition sought is the first growth beyond it
	base := rapid.IntRange(0, 1500).Draw(t, "base")
	if rapid.Bool().Draw(t, "small") {
		base = rapid.IntRange(0, 120).Draw(t, "smallbase")
	}
	target := size(base)
	if target == 1<<30 {
		base, target = 0, size(0)
	}
	n := seekSmallest(base, hi, func(k int) bool { return size(k) > target })
	var out []PDFCase
	for _, k := range seekAround(n, hi) {
		out = append(out, PDFCase{Content: BStr(g.at(k, pdfFill)), Level: level})
	}
	return out
}
