package props

import (
	"fmt"
	"image"
	"image/color"
	"reflect"

	"github.com/boombuler/barcode"
)

// modules1D reads a plain (black on white) 1D barcode into a module row. Any pixel that is
// neither color.Black nor color.White, a height other than 1 or an origin other than (0,0)
// is an error.
func modules1D(bc barcode.Barcode) ([]bool, error) {
	b := bc.Bounds()
	if b.Min != (image.Point{}) || b.Dy() != 1 || b.Dx() <= 0 {
		return nil, fmt.Errorf("bounds %v are not (0,0)-(w,1)", b)
	}
	out := make([]bool, b.Dx())
	for x := range out {
		switch bc.At(x, 0) {
		case color.Black:
			out[x] = true
		case color.White:
		default:
			return nil, fmt.Errorf("pixel %d is %v, neither black nor white", x, bc.At(x, 0))
		}
	}
	return out, nil
}

// matrix2D reads a plain 2D barcode into rows of modules ([y][x]).
func matrix2D(bc barcode.Barcode) ([][]bool, error) {
	b := bc.Bounds()
	if b.Min != (image.Point{}) || b.Dy() <= 0 || b.Dx() <= 0 {
		return nil, fmt.Errorf("bounds %v do not start at (0,0)", b)
	}
	out := make([][]bool, b.Dy())
	for y := range out {
		row := make([]bool, b.Dx())
		for x := range row {
			switch bc.At(x, y) {
			case color.Black:
				row[x] = true
			case color.White:
			default:
				return nil, fmt.Errorf("pixel (%d,%d) is %v, neither black nor white", x, y, bc.At(x, y))
			}
		}
		out[y] = row
	}
	return out, nil
}

// nilBarcode reports whether the interface holds nothing or a typed nil pointer.
func nilBarcode(bc any) bool {
	if bc == nil {
		return true
	}
	v := reflect.ValueOf(bc)
	switch v.Kind() {
	case reflect.Ptr, reflect.Interface, reflect.Map, reflect.Slice, reflect.Func, reflect.Chan:
		return v.IsNil()
	}
	return false
}

// aliasRune returns a non-ASCII rune whose low byte equals the ASCII character c (c + 0x100*k): inputs that
// byte-truncating code (byte(r), r & 0xFF) confuses with c.
func aliasRune(c byte, k int) rune {
	r := rune(c) + 0x100*rune(1+k%200)
	if r >= 0xD800 && r <= 0xDFFF {
		r += 0x1000
	}
	return r
}

// nonASCIIDigits: decimal digits of other scripts (Unicode category Nd) - digits for unicode.IsDigit, not for the symbologies.
var nonASCIIDigits = []rune("٠١٢٣٤٥٦٧٨٩०१२३४५６７８９０１２３４۵۶߀߁")
