package props

import (
	"bytes"
	"fmt"
	"hash/crc32"
	"image"
	"image/color"
	"image/draw"
	"image/png"
	"reflect"
	"sync/atomic"

	"github.com/boombuler/barcode"
	"pgregory.net/rapid"
	"verif/enc"
)

// modules1D reads a plain (black on white) 1D barcode into a module row. Any pixel that is
// neither color.Black nor color.White, a height other than 1 or an origin other than (0,0)
// is an error.
func modules1D(bc barcode.Barcode) ([]bool, error) {
	probe := probeBeforeBounds(bc)
	b := bc.Bounds()
	if err := probe.agrees(bc); err != nil {
		return nil, err
	}
	if b.Min != (image.Point{}) || b.Dy() != 1 || b.Dx() <= 0 {
		return nil, fmt.Errorf("bounds %v are not (0,0)-(w,1)", b)
	}
	out := make([]bool, b.Dx())
	for x := range out {
		switch bc.At(x, 0) {
		case color.Black:
			out[x] = true
		case color.White:
		default:
			return nil, fmt.Errorf("pixel %d is %v, neither black nor white", x, bc.At(x, 0))
		}
	}
	if err := accessorsAgree(bc); err != nil {
		return nil, err
	}
	return out, nil
}

// accessorsAgree: every way the standard library may read the image must show the pixels At() shows: the optional
// image.RGBA64Image fast path (RGBA64At), and image/draw, which prefers such fast paths when a source offers them.
var pngTurn atomic.Int64

func accessorsAgree(bc image.Image) error {
	b := bc.Bounds()
	if b.Dx() <= 0 || b.Dy() <= 0 || b.Dx()*b.Dy() > 4000000 {
		return nil
	}
	if fast, ok := bc.(interface {
		RGBA64At(x, y int) color.RGBA64
	}); ok {
		for y := b.Min.Y; y < b.Max.Y; y++ {
			for x := b.Min.X; x < b.Max.X; x++ {
				r, g, bl, a := bc.At(x, y).RGBA()
				if got := fast.RGBA64At(x, y); uint32(got.R) != r || uint32(got.G) != g || uint32(got.B) != bl || uint32(got.A) != a {
					return fmt.Errorf("RGBA64At(%d,%d) = %v, At(%d,%d) = %v: the image's pixel accessors disagree", x, y, got, x, y, bc.At(x, y))
				}
			}
		}
	}
	if op, ok := bc.(interface{ Opaque() bool }); ok && op.Opaque() {
		// encoders such as image/png trust Opaque() and then drop the alpha channel
		for y := b.Min.Y; y < b.Max.Y; y++ {
			for x := b.Min.X; x < b.Max.X; x++ {
				if _, _, _, a := bc.At(x, y).RGBA(); a != 0xffff {
					return fmt.Errorf("Opaque() reports true, pixel (%d,%d) = %v has alpha %#x", x, y, bc.At(x, y), a)
				}
			}
		}
	}
	if pi, ok := bc.(image.PalettedImage); ok {
		if pal, ok := bc.ColorModel().(color.Palette); ok {
			for y := b.Min.Y; y < b.Max.Y; y++ {
				for x := b.Min.X; x < b.Max.X; x++ {
					idx := int(pi.ColorIndexAt(x, y))
					if idx >= len(pal) {
						return fmt.Errorf("ColorIndexAt(%d,%d) = %d, the palette has %d entries", x, y, idx, len(pal))
					}
					r, g, bl, a := bc.At(x, y).RGBA()
					if pr, pg, pb, pa := pal[idx].RGBA(); pr != r || pg != g || pb != bl || pa != a {
						return fmt.Errorf("ColorIndexAt(%d,%d) selects palette entry %d = %v, At() says %v: the image's pixel accessors disagree", x, y, idx, pal[idx], bc.At(x, y))
					}
				}
			}
		}
	}
	inModel := b.Dx()*b.Dy() <= 60000 && pngTurn.Add(1)%24 == 0 // (zlib is slow: one image in 24)
	for y := b.Min.Y; y < b.Max.Y && inModel; y++ {             // image/png converts through ColorModel(): only judged if that changes nothing
		for x := b.Min.X; x < b.Max.X; x++ {
			c := bc.At(x, y)
			r, g, bl, a := c.RGBA()
			if cr, cg, cb, ca := bc.ColorModel().Convert(c).RGBA(); cr != r || cg != g || cb != bl || ca != a {
				inModel = false
				break
			}
		}
	}
	if inModel { // a real consumer: what image/png writes is what At() shows (within 16 -> 8 bit reduction)
		var buf bytes.Buffer
		if err := png.Encode(&buf, bc); err == nil {
			if back, err := png.Decode(&buf); err == nil {
				for y := 0; y < b.Dy(); y++ {
					for x := 0; x < b.Dx(); x++ {
						wr, wg, wb, wa := color.NRGBA64Model.Convert(bc.At(b.Min.X+x, b.Min.Y+y)).(color.NRGBA64).RGBA()
						gr, gg, gb, ga := back.At(back.Bounds().Min.X+x, back.Bounds().Min.Y+y).RGBA()
						if d := func(a, b uint32) bool { return a>>8 > b>>8+1 || b>>8 > a>>8+1 }; d(wa, ga) || (wa > 0x0fff && (d(wr, gr) || d(wg, gg) || d(wb, gb))) {
							return fmt.Errorf("image/png writes pixel (%d,%d) as %v, At() says %v", x, y, back.At(back.Bounds().Min.X+x, back.Bounds().Min.Y+y), bc.At(b.Min.X+x, b.Min.Y+y))
						}
					}
				}
			}
		}
	}
	dst := image.NewRGBA64(image.Rect(0, 0, b.Dx(), b.Dy()))
	draw.Draw(dst, dst.Bounds(), bc, b.Min, draw.Src)
	for y := 0; y < b.Dy(); y++ {
		for x := 0; x < b.Dx(); x++ {
			r, g, bl, a := bc.At(b.Min.X+x, b.Min.Y+y).RGBA()
			if got := dst.RGBA64At(x, y); uint32(got.R) != r || uint32(got.G) != g || uint32(got.B) != bl || uint32(got.A) != a {
				return fmt.Errorf("image/draw renders pixel (%d,%d) as %v, At() says %v: the image's pixel accessors disagree", x, y, got, bc.At(b.Min.X+x, b.Min.Y+y))
			}
		}
	}
	return nil
}

// matrix2D reads a plain 2D barcode into rows of modules ([y][x]).
func matrix2D(bc barcode.Barcode) ([][]bool, error) {
	probe := probeBeforeBounds(bc)
	b := bc.Bounds()
	if err := probe.agrees(bc); err != nil {
		return nil, err
	}
	if b.Min != (image.Point{}) || b.Dy() <= 0 || b.Dx() <= 0 {
		return nil, fmt.Errorf("bounds %v do not start at (0,0)", b)
	}
	out := make([][]bool, b.Dy())
	for y := range out {
		row := make([]bool, b.Dx())
		for x := range row {
			switch bc.At(x, y) {
			case color.Black:
				row[x] = true
			case color.White:
			default:
				return nil, fmt.Errorf("pixel (%d,%d) is %v, neither black nor white", x, y, bc.At(x, y))
			}
		}
		out[y] = row
	}
	if err := accessorsAgree(bc); err != nil {
		return nil, err
	}
	return out, nil
}

// nilBarcode reports whether the interface holds nothing or a typed nil pointer.
func nilBarcode(bc any) bool {
	if bc == nil {
		return true
	}
	v := reflect.ValueOf(bc)
	switch v.Kind() {
	case reflect.Ptr, reflect.Interface, reflect.Map, reflect.Slice, reflect.Func, reflect.Chan:
		return v.IsNil()
	}
	return false
}

// aliasRune returns a non-ASCII rune whose low byte equals the ASCII character c (c + 0x100*k): inputs that
// byte-truncating code (byte(r), r & 0xFF) confuses with c.
func aliasRune(c byte, k int) rune {
	r := rune(c) + 0x100*rune(1+k%200)
	if r >= 0xD800 && r <= 0xDFFF {
		r += 0x1000
	}
	return r
}

// nonASCIIDigits: decimal digits of other scripts (Unicode category Nd) - digits for unicode.IsDigit, not for the symbologies.
var nonASCIIDigits = []rune("٠١٢٣٤٥٦٧٨٩०१२३४५６７８９０１２３４۵۶߀߁")

// disturb makes two more calls of the same encoder family (one accepted, one rejected) between the encode under
// test and the reading of its result: a returned barcode must not change when the encoder is used again
// (shared backing arrays, pooled buffers, templates).
func disturb(fam string) {
	var specs []EncSpec
	switch fam {
	case "qr":
		specs = []EncSpec{{Fam: fam, Content: BStr("DISTURB 0123456789"), A: 1, B: 0}, {Fam: fam, Content: BStr("abc"), A: 0, B: 1}}
	case "datamatrix":
		specs = []EncSpec{{Fam: fam, Content: BStr("disturb 42")}}
	case "aztec":
		specs = []EncSpec{{Fam: fam, Content: BStr("Disturb, 1.5\r\n"), A: 33}, {Fam: fam, Content: BStr("x"), A: 33, B: 77}}
	case "pdf417":
		specs = []EncSpec{{Fam: fam, Content: BStr("Disturb 1234567890123 ;;"), A: 1}, {Fam: fam, Content: BStr("x"), A: 9}}
	case "code128", "code128nc":
		specs = []EncSpec{{Fam: fam, Content: BStr("Disturb\t1234")}, {Fam: fam, Content: BStr("é")}}
	case "code39", "code93":
		specs = []EncSpec{{Fam: fam, Content: BStr("DISTURB-39"), F1: true}, {Fam: fam, Content: BStr("ab\u00e9cd"), F1: true, F2: true}, {Fam: fam, Content: BStr("dis~turb"), F2: true}}
	case "codabar":
		specs = []EncSpec{{Fam: fam, Content: BStr("B98-76$C")}, {Fam: fam, Content: BStr("A12x")}}
	case "ean":
		specs = []EncSpec{{Fam: fam, Content: BStr("9780201379624")}, {Fam: fam, Content: BStr("7654321")}, {Fam: fam, Content: BStr("12x4567")}}
	case "2of5", "itf":
		specs = []EncSpec{{Fam: fam, Content: BStr("9081726354")}, {Fam: fam, Content: BStr("12x4")}}
	}
	for _, s := range specs {
		encodeSpec(s)
	}
}

// forgeCRC32 returns four bytes s such that crc32.ChecksumIEEE(prefix||s) == target (used to build different
// payloads of equal length and equal CRC-32: caches keyed by a checksum instead of the content).
func forgeCRC32(prefix []byte, target uint32) [4]byte {
	tab := crc32.IEEETable
	var rev [256]byte
	for i, v := range tab {
		rev[v>>24] = byte(i)
	}
	var idx [4]byte
	r := ^target
	for k := 3; k >= 0; k-- {
		i := rev[r>>24]
		idx[k] = i
		r = (r ^ tab[i]) << 8
	}
	st := ^crc32.Update(0, tab, prefix)
	var out [4]byte
	for k := 0; k < 4; k++ {
		out[k] = byte(st) ^ idx[k]
		st = tab[idx[k]] ^ (st >> 8)
	}
	return out
}

// crcTwin returns a payload of the same length and the same CRC-32 (IEEE) as a, differing in content.
func crcTwin(a []byte, seed int) []byte {
	if len(a) < 5 {
		return nil
	}
	b := make([]byte, len(a))
	for i := range b {
		b[i] = a[i] ^ byte(1+(seed+i*7)%250)
	}
	f := forgeCRC32(b[:len(b)-4], crc32.ChecksumIEEE(a))
	copy(b[len(b)-4:], f[:])
	return b
}

// foreignWarmup: in every second shard the process first makes one ordinary call of every OTHER encoder family,
// so that process-wide state shared between packages (caches keyed too coarsely, "first user wins" tables) has
// been initialised by somebody else before the family under test is used. The other shards start cold.
func foreignWarmup(own ...string) {
	if shard()%2 == 0 {
		return
	}
	skip := map[string]bool{}
	for _, o := range own {
		skip[o] = true
	}
	for _, s := range familyFirstCalls {
		if !skip[s.Fam] {
			encodeSpec(s)
		}
	}
	if shard()%4 == 1 { // and an application that uses the exported utils API with its own field parameters
		enc.ForeignUtils(shard())
	}
}

// latin1Text: valid UTF-8 text whose runes are all <= U+00FF (ASCII letters mixed with U+00A0..U+00FF), the input
// class that "helpful" transcoding to ISO-8859-1 would silently change ("café", "Ã©", "£5", "°").
func latin1Text(t *rapid.T, maxRunes int) string {
	n := rapid.IntRange(1, maxRunes).Draw(t, "l1n")
	r := make([]rune, n)
	for i := range r {
		if rapid.IntRange(0, 2).Draw(t, "l1k") == 0 {
			r[i] = rune(rapid.IntRange(0xA0, 0xFF).Draw(t, "l1hi"))
		} else {
			r[i] = rune("abcdefghij ABC012"[rapid.IntRange(0, 16).Draw(t, "l1lo")])
		}
	}
	r[rapid.IntRange(0, n-1).Draw(t, "l1pos")] = rune(rapid.SampledFrom([]int{0xE9, 0xC3, 0xA9, 0xA0, 0xB0, 0xA3, 0xFC, 0xFF, 0xC2}).Draw(t, "l1one"))
	return string(r)
}

// colourVariant: one accepted case in four is encoded once more through the WithColor entry point of the same encoder
// with a non-default scheme; it must be accepted and draw the same module pattern in the scheme's two colours (an
// entry-point variant that shares less code with the plain one than it seems: other flags, other length, other tail).
func colourVariant(t TB, prop, check string, c any, spec EncSpec, plain [][]bool) {
	h := H(spec.Fam, spec.Content, spec.A, spec.B)
	if h%4 != 0 {
		return
	}
	switch (h >> 2) % 10 {
	case 0:
		spec.Scheme = &SchemeSpec{Model: "cmyk", FG: ColorSpec{Model: "cmyk", V: [4]uint16{10, 200, 30, 40}}, BG: ColorSpec{Model: "cmyk", V: [4]uint16{0, 0, 90, 5}}}
	case 1: // light on dark
		spec.Scheme = &SchemeSpec{Model: "rgba", FG: ColorSpec{Model: "rgba", V: [4]uint16{250, 250, 210, 255}}, BG: ColorSpec{Model: "rgba", V: [4]uint16{0, 0, 60, 255}}}
	case 2: // dark bars on a transparent ground (label overlays)
		spec.Scheme = &SchemeSpec{Model: "nrgba", FG: ColorSpec{Model: "nrgba", V: [4]uint16{0, 0, 90, 255}}, BG: ColorSpec{Model: "nrgba", V: [4]uint16{255, 255, 255, 0}}}
	case 3: // colours of other types than the scheme's model produces
		spec.Scheme = &SchemeSpec{Model: "gray", FG: ColorSpec{Model: "rgba", V: [4]uint16{0, 0, 0, 255}}, BG: ColorSpec{Model: "nrgba", V: [4]uint16{0, 0, 0, 0}}}
	case 5: // colour and model values that cannot be compared with == (a slice-based colour type, color.Palette as model)
		spec.Scheme = &SchemeSpec{Model: "palette", FG: ColorSpec{Model: "slice", V: [4]uint16{0, 0, 30000, 65535}}, BG: ColorSpec{Model: "slice", V: [4]uint16{65535, 65535, 65535, 65535}}}
	case 4: // a caller-defined colour type and *image.Uniform
		spec.Scheme = &SchemeSpec{Model: "rgba", FG: ColorSpec{Model: "custom", V: [4]uint16{0, 0, 0, 65535}}, BG: ColorSpec{Model: "uniform", V: [4]uint16{255, 255, 255, 255}}}
	default:
		spec.Scheme = &SchemeSpec{Predefined: 1 + int((h>>2)%4)}
	}
	bc, err, pv := encodeSpec(spec)
	if pv != nil {
		failf(t, prop, check, c, "the WithColor entry point of the same call: %v", pv)
	}
	if err != nil || nilBarcode(bc) {
		failf(t, prop, check, c, "the WithColor entry point rejects what the plain entry point accepts: %v", err)
	}
	var pat [][]bool
	var perr error
	if pv := try(func() { pat, perr = pattern(bc, spec.Scheme.Scheme()) }); pv != nil {
		failf(t, prop, check, c, "the WithColor entry point of the same call: reading pixels: %v", pv)
	}
	if perr != nil {
		failf(t, prop, check, c, "the WithColor entry point of the same call: %v", perr)
	}
	var aerr error
	if pv := try(func() { aerr = accessorsAgree(bc) }); pv != nil || aerr != nil {
		failf(t, prop, check, c, "the WithColor entry point of the same call: %v %v", aerr, pv)
	}
	if !samePattern(pat, plain) {
		failf(t, prop, check, c, "the WithColor entry point of the same call draws a %dx%d module pattern that differs from the plain entry point's %dx%d pattern", len(pat[0]), len(pat), len(plain[0]), len(plain))
	}
}

// sameValue: a == b for interface values, also when their dynamic type is not comparable (slices: a caller-defined
// colour type, color.Palette as a model), where == would panic.
func sameValue(a, b any) bool {
	ta, tb := reflect.TypeOf(a), reflect.TypeOf(b)
	if ta != tb {
		return false
	}
	if ta == nil || ta.Comparable() {
		return a == b
	}
	return reflect.DeepEqual(a, b)
}

// big returns 2^shift + add; written this way so that the harness also compiles where int has 32 bits (the checks
// that use such sizes are not run there).
func big(shift uint, add int) int { return int(int64(1)<<shift + int64(add)) }

// probeBeforeBounds reads a few pixels of the first row BEFORE the caller's first Bounds() call (every symbol is at
// least 10 modules wide): an image whose pixels are only drawn once Bounds() (or any other accessor) has been used
// shows a different picture to a caller that uses the accessors in another order.
type earlyProbe struct {
	xs   []int
	cols []color.Color
}

func probeBeforeBounds(bc barcode.Barcode) earlyProbe {
	var p earlyProbe
	if nilBarcode(bc) {
		return p
	}
	for _, x := range []int{0, 1, 2, 3, 5, 7, 9} {
		var c color.Color
		if try(func() { c = bc.At(x, 0) }) == nil {
			p.xs, p.cols = append(p.xs, x), append(p.cols, c)
		}
	}
	return p
}

func (p earlyProbe) agrees(bc barcode.Barcode) error {
	for i, x := range p.xs {
		var c color.Color
		if pv := try(func() { c = bc.At(x, 0) }); pv != nil {
			return fmt.Errorf("At(%d,0) worked before the first Bounds() call and panics after it: %v", x, pv)
		}
		if !sameValue(c, p.cols[i]) {
			return fmt.Errorf("pixel (%d,0) was %v when read before the first Bounds() call and is %v after it: the picture depends on the order in which the accessors are used", x, p.cols[i], c)
		}
	}
	return nil
}
