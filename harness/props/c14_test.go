package props

// C14: CheckSum() reports the symbology's real check value, also after scaling.

import (
	"fmt"
	"image/color"
	"strings"
	"testing"

	"github.com/boombuler/barcode"
	"github.com/boombuler/barcode/code128"
	"github.com/boombuler/barcode/code39"
	"github.com/boombuler/barcode/ean"
	"github.com/boombuler/barcode/utils"
	"pgregory.net/rapid"
	"verif/ref"
)

type C14Case struct {
	Kind      string      `json:"kind"` // ean, code128, code39, code128nc (no-checksum variant: judged only if it exposes CheckSum())
	Content   BStr        `json:"content"`
	Scheme    *SchemeSpec `json:"scheme,omitempty"` // non-nil: the WithColor entry point
	Checksum  bool        `json:"checksum"`         // code39: draw the check character
	FullASCII bool        `json:"full_ascii"`       // code39
	Scales    []int       `json:"scales"`           // per round: extra width in pixels added to factor*width; factor = 1 + extra%3
}

// checkC14 returns false when the encoder rejected the input (trivial case).
func checkC14(t TB, c C14Case) bool {
	noteCase("C14", "checksum", c)
	const P, K = "C14", "checksum"
	s := string(c.Content)
	var bc barcode.BarcodeIntCS
	var plainNC barcode.Barcode
	var err error
	cs := barcode.ColorScheme{Model: color.Gray16Model, Background: color.White, Foreground: color.Black}
	if c.Scheme != nil {
		cs = c.Scheme.Scheme()
	}
	if pv := try(func() {
		switch {
		case c.Kind == "ean" && c.Scheme == nil:
			bc, err = ean.Encode(s)
		case c.Kind == "ean":
			bc, err = ean.EncodeWithColor(s, cs)
		case c.Kind == "code128" && c.Scheme == nil:
			bc, err = code128.Encode(s)
		case c.Kind == "code128":
			bc, err = code128.EncodeWithColor(s, cs)
		case c.Kind == "code128nc":
			var plain barcode.Barcode
			if c.Scheme == nil {
				plain, err = code128.EncodeWithoutChecksum(s)
			} else {
				plain, err = code128.EncodeWithoutChecksumWithColor(s, cs)
			}
			if err == nil && !nilBarcode(plain) {
				bc, _ = plain.(barcode.BarcodeIntCS) // stays nil when no checksum is exposed
				plainNC = plain
			}
		case c.Kind == "code39" && c.Scheme == nil:
			bc, err = code39.Encode(s, c.Checksum, c.FullASCII)
		case c.Kind == "code39":
			bc, err = code39.EncodeWithColor(s, c.Checksum, c.FullASCII, cs)
		}
	}); pv != nil {
		failf(t, P, K, c, "%v", pv)
	}
	if err == nil && nilBarcode(bc) && !nilBarcode(plainNC) {
		// no checksum exposed by the no-checksum variant itself; its scaled copies must not invent one either: if a
		// scaled copy exposes CheckSum(), it has to be the modulo-103 value of the symbol
		pat, perr := pattern(plainNC, cs)
		if perr != nil || len(pat) != 1 {
			failf(t, P, K, c, "reading the symbol: %v", perr)
		}
		res, derr := ref.DecodeCode128(pat[0], false)
		if derr != nil {
			failf(t, P, K, c, "reference decoder: %v", derr)
		}
		cur := plainNC
		for round, extra := range c.Scales {
			var next barcode.Barcode
			var serr error
			if pv := try(func() { next, serr = barcode.Scale(cur, cur.Bounds().Dx()*(1+extra%3)+extra, 1+extra%7) }); pv != nil || serr != nil || nilBarcode(next) {
				failf(t, P, K, c, "Scale round %d: %v %v", round, pv, serr)
			}
			if ics, ok := next.(barcode.BarcodeIntCS); ok && ics.CheckSum() != res.WantSum {
				failf(t, P, K, c, "after %d scalings the barcode exposes CheckSum()=%d; the modulo-103 check value of its symbols is %d", round+1, ics.CheckSum(), res.WantSum)
			}
			cur = next
		}
		return false
	}
	if err != nil || nilBarcode(bc) {
		return false
	}
	var m []bool
	pat, merr := pattern(bc, cs)
	if merr != nil {
		failf(t, P, K, c, "%v", merr)
	}
	if len(pat) != 1 {
		failf(t, P, K, c, "a 1D symbol with %d rows", len(pat))
	}
	m = pat[0]
	var want int
	switch c.Kind {
	case "ean":
		full := bc.Content()
		if !allDigits(full) || (len(full) != 8 && len(full) != 13) {
			failf(t, P, K, c, "Content()=%q is not an 8/13-digit number", full)
		}
		want = ref.GS1Check(full[:len(full)-1])
		if int(full[len(full)-1]-'0') != want {
			failf(t, P, K, c, "last digit of Content() %q is not the GS1 check digit %d", full, want)
		}
		dec, derr := ref.DecodeEAN(m)
		if derr != nil || dec != full {
			failf(t, P, K, c, "symbol decodes to %q (%v), Content() is %q", dec, derr, full)
		}
	case "code128":
		res, derr := ref.DecodeCode128(m, true)
		if derr != nil {
			failf(t, P, K, c, "reference decoder: %v", derr)
		}
		want = res.WantSum
		if res.Check != want {
			failf(t, P, K, c, "drawn check character has value %d, modulo-103 sum of the symbol is %d", res.Check, want)
		}
		if res.Text != s { // the check value "for the encoded content": the symbols must be those of the content
			failf(t, P, K, c, "the symbol (and with it the check value %d) is that of %q, not of the content", want, res.Text)
		}
	case "code128nc": // exposes a checksum although it draws none: it must still be the modulo-103 value of its symbols
		res, derr := ref.DecodeCode128(m, false)
		if derr != nil {
			failf(t, P, K, c, "reference decoder: %v", derr)
		}
		want = res.WantSum
		if res.Text != s {
			failf(t, P, K, c, "the symbol is that of %q, not of the content", res.Text)
		}
	case "code39":
		raw, derr := ref.DecodeCode39Raw(m)
		if derr != nil {
			failf(t, P, K, c, "reference decoder: %v", derr)
		}
		data := raw
		if c.Checksum {
			data = raw[:len(raw)-1]
		}
		want = ref.Code39Check(data)
		text, terr := data, error(nil)
		if c.FullASCII {
			text, terr = ref.FullASCIIDecode([]rune(data), '$', '%', '/', '+')
		}
		if terr != nil || text != s {
			failf(t, P, K, c, "the symbol (and with it the check value %d) is that of %q (%v), not of the content", want, text, terr)
		}
		if c.Checksum {
			if got := ref.Code39Value(raw[len(raw)-1]); got != want {
				failf(t, P, K, c, "drawn check character %q has value %d, modulo-43 sum of %q is %d", raw[len(raw)-1], got, data, want)
			}
		}
	}
	if got := bc.CheckSum(); got != want {
		failf(t, P, K, c, "CheckSum()=%d, the symbology's check value for this content is %d", got, want)
	}
	var cur barcode.Barcode = bc
	for round, extra := range c.Scales {
		w := cur.Bounds().Dx()*(1+extra%3) + extra
		h := 1 + extra%7
		if extra%11 == 10 {
			h = 0 // the library accepts a height of 0 for 1D codes (only the width is a scaled dimension)
		}
		var next barcode.Barcode
		var serr error
		if pv := try(func() {
			switch extra % 4 {
			case 1: // a fill colour outside the barcode's colour model
				next, serr = barcode.ScaleWithFill(cur, w, h, color.RGBA{R: 255, A: 255})
			case 3:
				next, serr = barcode.ScaleWithFill(cur, w, h, color.Transparent)
			default:
				next, serr = barcode.Scale(cur, w, h)
			}
		}); pv != nil {
			failf(t, P, K, c, "Scale round %d: %v", round, pv)
		}
		if serr != nil || nilBarcode(next) {
			failf(t, P, K, c, "Scale round %d to %dx%d failed: %v", round, w, h, serr)
		}
		ics, ok := next.(barcode.BarcodeIntCS)
		if !ok {
			failf(t, P, K, c, "after %d scalings the barcode no longer exposes CheckSum()", round+1)
		}
		var got int
		if pv := try(func() { got = ics.CheckSum() }); pv != nil {
			failf(t, P, K, c, "CheckSum() after scaling: %v", pv)
		}
		if got != want {
			failf(t, P, K, c, "after %d scalings CheckSum()=%d, want %d", round+1, got, want)
		}
		cur = next
	}
	return true
}

func init() { register("checksum", func(t TB, c C14Case) { checkC14(t, c) }) }

func genC14(t *rapid.T) C14Case {
	c := C14Case{Kind: rapid.SampledFrom([]string{"ean", "code128", "code39", "code128nc", "ean", "code128", "code39"}).Draw(t, "kind")}
	if rapid.IntRange(0, 3).Draw(t, "coloured") == 0 {
		c.Scheme = genScheme(t)
	}
	switch c.Kind {
	case "ean":
		c.Content = BStr(genEAN(t))
	case "code128", "code128nc":
		c.Content = BStr(genCode128Text(t))
	case "code39":
		k := genC39(t)
		c.Content, c.Checksum, c.FullASCII = k.Content, k.Checksum, k.FullASCII
	}
	c.Scales = rapid.SliceOfN(rapid.IntRange(0, 50), 0, 3).Draw(t, "scales")
	return c
}

func c14Account(st *Stats, c C14Case, ok bool) {
	if !ok {
		st.Class("rejected " + c.Kind)
		return
	}
	cls := c.Kind
	if c.Kind == "ean" {
		cls = fmt.Sprintf("ean len %d", len(c.Content))
	}
	if c.Kind == "code39" {
		cls = fmt.Sprintf("code39 checkchar=%v fullASCII=%v", c.Checksum, c.FullASCII)
	}
	st.Class("accepted " + cls)
	st.Class(fmt.Sprintf("scale rounds %d", len(c.Scales)))
	st.NonTrivial(H(c.Kind, c.Content, c.Checksum, c.FullASCII, fmt.Sprint(c.Scales)))
}

func TestC14Rapid(t *testing.T) {
	st := NewStats("C14", "rapid")
	runRapid(t, st, func(rt *rapid.T) {
		c := genC14(rt)
		ok := checkC14(rt, c)
		c14Account(st, c, ok)
		if len(c.Content) <= 13 {
			st.Sample(fmt.Sprintf("%s ok=%v scales=%d", c.Kind, ok, len(c.Scales)), c)
		}
	})
}

// TestC14Exhaustive: every 7-digit EAN input (thorough; quick: every 89th), every Code 39 string of
// length 0..2 and every Code 128 string of length 1..2 over reduced alphabets.
func TestC14Exhaustive(t *testing.T) {
	st := NewStats("C14", "exhaustive")
	defer st.Flush()
	ct := &collectTB{}
	stride := 89
	if thorough() {
		stride = 1
	}
	const chunk = 10000
	parallelFor(10000000/chunk, 16, func(ci int) {
		if ct.Failed() {
			return
		}
		ct.guard(func() {
			n := 0
			for v := ci * chunk; v < (ci+1)*chunk; v++ {
				if v%stride != 0 {
					continue
				}
				s := fmt.Sprintf("%07d", v)
				checkC14(ct, C14Case{Kind: "ean", Content: BStr(s)})
				n++
				if v%1000 == 0 {
					full := s + string(byte('0'+ref.GS1Check(s)))
					checkC14(ct, C14Case{Kind: "ean", Content: BStr(full), Scales: []int{1, 2}})
					checkC14(ct, C14Case{Kind: "ean", Content: BStr("40063" + s), Scales: []int{3}})
					n += 2
				}
			}
			st.EvalN(int64(n))
			st.NonTrivialN(int64(n))
		})
	})
	parallelFor(43, 16, func(i int) {
		if ct.Failed() {
			return
		}
		ct.guard(func() {
			for j := -1; j < 43; j++ {
				s := basic43[i : i+1]
				if j >= 0 {
					s += basic43[j : j+1]
				}
				for _, cs := range []bool{false, true} {
					c := C14Case{Kind: "code39", Content: BStr(s), Checksum: cs, Scales: []int{i % 5}}
					checkC14(ct, c)
					st.Eval()
					c14Account(st, c, true)
				}
			}
		})
	})
	parallelFor(132, 16, func(i int) {
		if ct.Failed() {
			return
		}
		ct.guard(func() {
			r := func(k int) rune {
				if k < 128 {
					return rune(k)
				}
				return rune(0xF1 + k - 128)
			}
			for j := -1; j < 132; j++ {
				s := string(r(i))
				if j >= 0 {
					s += string(r(j))
				}
				c := C14Case{Kind: "code128", Content: BStr(s), Scales: []int{j % 3}}
				if j < 0 {
					c.Scales = nil
				}
				checkC14(ct, c)
				st.Eval()
				c14Account(st, c, true)
			}
		})
	})
	// the exported constructors of 1D codes with a checksum (an application drawing its own symbology): CheckSum()
	// is the value handed over, also after scaling
	for _, cs := range []int{0, 1, 7, 55, 102, 1 << 20} {
		cs := cs
		ct.guard(func() {
			bits := new(utils.BitList)
			for i := 0; i < 40; i++ {
				bits.AddBit(i%3 != 1)
			}
			for v, bc := range []barcode.BarcodeIntCS{utils.New1DCodeIntCheckSum("own code", "content", bits, cs),
				utils.New1DCodeIntCheckSumWithColor("own code", "content", bits, cs, barcode.ColorScheme24)} {
				if bc.CheckSum() != cs {
					failf(ct, "C14", "checksum", C14Case{Kind: "utils", Content: BStr(fmt.Sprint(cs))}, "utils constructor variant %d: CheckSum() = %d, the value handed over is %d", v, bc.CheckSum(), cs)
				}
				sc, err := barcode.Scale(bc, 90, 3)
				if err != nil {
					failf(ct, "C14", "checksum", C14Case{Kind: "utils", Content: BStr(fmt.Sprint(cs))}, "Scale: %v", err)
				}
				if ics, ok := sc.(barcode.BarcodeIntCS); !ok || ics.CheckSum() != cs {
					failf(ct, "C14", "checksum", C14Case{Kind: "utils", Content: BStr(fmt.Sprint(cs))}, "utils constructor variant %d: after scaling CheckSum() is not the value %d handed over", v, cs)
				}
			}
			st.Eval()
			st.Class("exported 1D constructors with a checksum")
		})
	}
	// an early content again after 20000 other short contents of its symbology (bounded memo tables that recycle
	// their slots), and one character repeated more often than a 16-bit counter can count
	for _, early := range []C14Case{{Kind: "code39", Content: BStr("A"), Checksum: true}, {Kind: "code39", Content: BStr("first"), Checksum: true, FullASCII: true},
		{Kind: "code128", Content: BStr("First 1234")}, {Kind: "ean", Content: BStr("1234567")}} {
		ct.guard(func() {
			checkC14(ct, early)
			for i := 0; i < 20000; i++ {
				o := early
				switch early.Kind {
				case "code39":
					o.Content = BStr(fmt.Sprintf("K%X-%d", i, i%7))
				case "code128":
					o.Content = BStr(fmt.Sprintf("c%d\x01%x", i, i))
				default:
					o.Content = BStr(fmt.Sprintf("%07d", i))
				}
				if i%500 == 0 {
					checkC14(ct, o)
				} else {
					encodeSpec(EncSpec{Fam: early.Kind, Content: o.Content, F1: o.Checksum, F2: o.FullASCII})
				}
			}
			checkC14(ct, early)
			st.EvalN(20000)
			st.Class("early content checked again after 20000 other contents")
		})
	}
	for _, c := range []C14Case{{Kind: "code39", Content: BStr(strings.Repeat("A", 70000)), Checksum: true}, {Kind: "code39", Content: BStr(strings.Repeat("Z", 66000) + "-1"), Checksum: true, Scales: []int{1}}} {
		ct.guard(func() {
			checkC14(ct, c)
			st.Eval()
			st.Class("one character repeated more than 65535 times")
		})
	}
	st.Sample("exhaustive", C14Case{Kind: "ean", Content: BStr("1234567")})
	if stride == 1 {
		st.Set("exhaustive", true)
	}
	st.Set("exhaustive_domain", fmt.Sprintf("every %d-th 7-digit EAN input (1 = all 10^7); all Code 39 basic strings of length 1..2 x check character on/off; all Code 128 strings of length 1..2 over the 132-symbol alphabet", stride))
	if ct.Failed() {
		t.Fatalf("%s", ct.first)
	}
}

// C14Huge: a Code 39 content of N repetitions of one character (thorough tier): the modulo-43 sum of millions of
// character values must not be accumulated in anything narrower than the sum needs (51.2 million '%' reach 2^31).
// Only CheckSum() is judged here, directly and through Scale - reading 600 million pixels back is left to the other parts.
type C14Huge struct {
	N    int    `json:"n"`
	Char string `json:"char"`
}

func checkC14Huge(t TB, c C14Huge) {
	const P, K = "C14", "checksum-huge"
	noteCase(P, K, c)
	v := ref.Code39Value(c.Char[0])
	if v < 0 || c.N < 1 {
		return
	}
	want := int(int64(v) * int64(c.N) % 43)
	var bc barcode.BarcodeIntCS
	var err error
	if pv := try(func() { bc, err = code39.Encode(strings.Repeat(c.Char[:1], c.N), false, false) }); pv != nil {
		failf(t, P, K, c, "%v", pv)
	}
	if err != nil || nilBarcode(bc) {
		failf(t, P, K, c, "a Code 39 text of %d characters %q is rejected: %v", c.N, c.Char, err)
	}
	if got := bc.CheckSum(); got != want {
		failf(t, P, K, c, "CheckSum()=%d, the modulo-43 value of %d x %q is %d", got, c.N, c.Char, want)
	}
	var sc barcode.Barcode
	if pv := try(func() { sc, err = barcode.Scale(bc, bc.Bounds().Dx()*2+3, 2) }); pv != nil || err != nil {
		failf(t, P, K, c, "Scale: %v %v", err, pv)
	}
	ics, ok := sc.(barcode.BarcodeIntCS)
	if !ok {
		failf(t, P, K, c, "the scaled barcode does not expose CheckSum()")
	}
	if got := ics.CheckSum(); got != want {
		failf(t, P, K, c, "after Scale CheckSum()=%d, want %d", got, want)
	}
}

func init() { register("checksum-huge", func(t TB, c C14Huge) { checkC14Huge(t, c) }) }

// TestC14Huge (thorough tier; about six minutes and 1 GB: BitList grows in fixed steps).
func TestC14Huge(t *testing.T) {
	st := NewStats("C14", "huge")
	defer st.Flush()
	ct := &collectTB{}
	cases := []C14Huge{{N: 3000000, Char: "%"}, {N: 51200000, Char: "%"}}
	parallelFor(len(cases), 2, func(i int) {
		ct.guard(func() {
			checkC14Huge(ct, cases[i])
			st.Eval()
			st.NonTrivial(H("c14huge", cases[i].N, cases[i].Char))
			st.Class("Code 39 content of millions of characters (CheckSum() only)")
		})
	})
	st.Sample("huge", cases[1])
	if ct.Failed() {
		t.Fatalf("%s", ct.first)
	}
}
