package props

// C04: PDF417 round-trip through an independent reader.

import (
	"bytes"
	"fmt"
	"strings"
	"testing"

	"github.com/boombuler/barcode"
	"github.com/boombuler/barcode/pdf417"
	"pgregory.net/rapid"
	"verif/ref"
)

type PDFCase struct {
	Content BStr `json:"content"`
	Level   int  `json:"level"`
}

func pdfEncode(c PDFCase) (bc barcode.Barcode, err error, pv any) {
	pv = try(func() { bc, err = pdf417.Encode(string(c.Content), byte(c.Level)) })
	return
}

const (
	pdfUpper  = "ABCDEFGHIJKLMNOPQRSTUVWXYZ "
	pdfLower  = "abcdefghijklmnopqrstuvwxyz "
	pdfMixedS = "0123456789&\r\t,:#-.$/+%*=^ "
	pdfPunctS = ";<>@[\\]_`~!\r\t,:\n-.$/\"|*()?{}'"
	pdfPOnly  = ";<>@[\\]_`~!\n\"|()?{}'" // punctuation that is not in the mixed set
)

func drawFrom(t *rapid.T, set string, n int, label string) []byte {
	out := make([]byte, n)
	for i := range out {
		out[i] = set[rapid.IntRange(0, len(set)-1).Draw(t, label)]
	}
	return out
}

func genPDFContent(t *rapid.T) []byte {
	var out []byte
	nseg := rapid.IntRange(0, 10).Draw(t, "nseg")
	digits := func(n int) {
		for i := 0; i < n; i++ {
			out = append(out, byte('0'+rapid.IntRange(0, 9).Draw(t, "d")))
		}
	}
	highBytes := func(n int) {
		for i := 0; i < n; i++ {
			v := rapid.IntRange(0, 160).Draw(t, "hb")
			if v < 128 {
				out = append(out, byte(128+v))
			} else {
				out = append(out, []byte{0, 1, 8, 11, 12, 14, 27, 31, 127}[(v-128)%9])
			}
		}
	}
	for s := 0; s < nseg; s++ {
		switch rapid.IntRange(0, 16).Draw(t, "seg") {
		case 0:
			out = append(out, drawFrom(t, pdfUpper, rapid.IntRange(1, 12).Draw(t, "n"), "u")...)
		case 1:
			out = append(out, drawFrom(t, pdfLower, rapid.IntRange(1, 12).Draw(t, "n"), "l")...)
		case 2:
			out = append(out, drawFrom(t, pdfMixedS, rapid.IntRange(1, 10).Draw(t, "n"), "m")...)
		case 3:
			out = append(out, drawFrom(t, pdfPunctS, rapid.IntRange(1, 10).Draw(t, "n"), "p")...)
		case 4: // reach punct sub-mode: a mixed char, then punct-only chars
			out = append(out, drawFrom(t, "0123456789#&=^", 1, "m1")...)
			out = append(out, drawFrom(t, pdfPOnly, rapid.IntRange(2, 7).Draw(t, "n"), "po")...)
		case 5: // digit runs around the numeric threshold and the 44-digit group size
			digits(rapid.SampledFrom([]int{1, 2, 5, 11, 12, 13, 14, 15, 26, 43, 44, 45, 46, 87, 88, 89, 90}).Draw(t, "nd"))
		case 6:
			digits(rapid.IntRange(1, 60).Draw(t, "ndr"))
		case 7: // byte runs of every length mod 6
			highBytes(rapid.IntRange(1, 14).Draw(t, "nb"))
		case 8: // single byte between text runs of at least 6 characters
			out = append(out, drawFrom(t, pdfLower+pdfUpper, rapid.IntRange(6, 9).Draw(t, "n"), "t1")...)
			highBytes(1)
			out = append(out, drawFrom(t, pdfLower+pdfUpper+pdfPOnly, rapid.IntRange(6, 9).Draw(t, "n"), "t2")...)
		case 9: // text ending in punct sub-mode, then a single byte, then punctuation again
			out = append(out, drawFrom(t, pdfUpper, rapid.IntRange(0, 3).Draw(t, "n0"), "u")...)
			out = append(out, drawFrom(t, "0123456789", 1, "m1")...)
			out = append(out, drawFrom(t, pdfPOnly, rapid.IntRange(2, 6).Draw(t, "n"), "po")...)
			highBytes(1)
			out = append(out, drawFrom(t, pdfPOnly+pdfUpper, rapid.IntRange(5, 8).Draw(t, "n2"), "po2")...)
		case 10: // UTF-8 multi-byte sequences
			out = append(out, rapid.SampledFrom([]string{"é", "ü", "€", "日本", "😀", "ñ", "Ω"}).Draw(t, "utf")...)
			if rapid.Bool().Draw(t, "nd") {
				// digits of other scripts inside / next to long ASCII digit runs
				digits(rapid.SampledFrom([]int{0, 5, 12, 13, 20}).Draw(t, "pre"))
				out = append(out, string(rapid.SampledFrom(nonASCIIDigits).Draw(t, "ndr"))...)
				digits(rapid.SampledFrom([]int{0, 5, 12, 13, 20}).Draw(t, "post"))
			}
		case 11: // short text (< 5) between bytes: swallowed by byte compaction
			highBytes(rapid.IntRange(1, 4).Draw(t, "nb1"))
			out = append(out, drawFrom(t, pdfLower+pdfMixedS, rapid.IntRange(1, 5).Draw(t, "n"), "st")...)
			highBytes(rapid.IntRange(1, 4).Draw(t, "nb2"))
		case 12: // case alternation (as shifts) and punctuation shifts
			n := rapid.IntRange(2, 8).Draw(t, "n")
			for i := 0; i < n; i++ {
				out = append(out, drawFrom(t, pdfLower, 1, "l")...)
				out = append(out, drawFrom(t, pdfUpper+pdfPOnly, 1, "x")...)
			}
		case 13: // any byte
			n := rapid.IntRange(1, 12).Draw(t, "n")
			for i := 0; i < n; i++ {
				out = append(out, rapid.Byte().Draw(t, "any"))
			}
		case 14: // bulk to approach the capacity limit
			n := rapid.IntRange(100, 900).Draw(t, "bulk")
			kind := rapid.IntRange(0, 3).Draw(t, "bk")
			out = append(out, fillPDF(kind, int64(rapid.IntRange(0, 1<<20).Draw(t, "seed")), n)...)
		case 15:
			out = append(out, latin1Text(t, 12)...)
		default:
			out = append(out, drawFrom(t, pdfUpper+pdfLower+pdfMixedS+pdfPunctS, rapid.IntRange(1, 20).Draw(t, "n"), "txt")...)
		}
	}
	if len(out) > 2800 {
		out = out[:2800]
	}
	return out
}

func fillPDF(kind int, seed int64, n int) []byte {
	out := make([]byte, n)
	for i := range out {
		x := uint64(seed)*0x9E3779B97F4A7C15 + uint64(i+1)*0xBF58476D1CE4E5B9
		x ^= x >> 31
		switch kind {
		case 0:
			out[i] = byte('0' + (x>>8)%10)
		case 1:
			out[i] = pdfUpper[(x>>8)%27]
		case 2:
			out[i] = byte(128 + (x>>8)%128)
		default:
			out[i] = (pdfLower + pdfPunctS + "0123")[(x>>8)%uint64(len(pdfLower+pdfPunctS)+4)]
		}
	}
	return out
}

// checkPDFRoundTrip returns the reader's result (nil when rejected).
func checkPDFRoundTrip(t TB, c PDFCase) *ref.PDFResult {
	noteCase("C04", "pdf417-roundtrip", c)
	const P, K = "C04", "pdf417-roundtrip"
	if n := len(c.Content); n >= 5 && n <= 300 {
		tw := c
		tw.Content = BStr(crcTwin(c.Content, n))
		pdfEncode(tw)
	}
	bc, err, pv := pdfEncode(c)
	if pv != nil {
		failf(t, P, K, c, "%v", pv)
	}
	k := 2 << uint(c.Level)
	if err != nil || nilBarcode(bc) {
		// conservative: one codeword per byte plus latches is an upper bound of any sensible encodation
		if c.Level <= 8 && 2*len(c.Content)+4+k <= 900 {
			failf(t, P, K, c, "content of %d bytes at level %d (at most %d codewords incl. %d check words) rejected: %v", len(c.Content), c.Level, 2*len(c.Content)+4+k, k, err)
		}
		return nil
	}
	disturb("pdf417")
	m, merr := matrix2D(bc)
	if merr != nil {
		failf(t, P, K, c, "%v", merr)
	}
	res, derr := ref.DecodePDF417(m)
	colourVariant(t, P, K, c, EncSpec{Fam: "pdf417", Content: c.Content, A: c.Level}, m)
	if derr != nil {
		failf(t, P, K, c, "reference reader: %v", derr)
	}
	if res.Level != c.Level {
		failf(t, P, K, c, "row indicators name security level %d, requested %d", res.Level, c.Level)
	}
	if !bytes.Equal(res.Content, c.Content) {
		failf(t, P, K, c, "%dx%d symbol (segments %v) decodes to %q", res.Rows, res.Cols, res.Segments, truncS(res.Content))
	}
	return res
}

func init() { register("pdf417-roundtrip", func(t TB, c PDFCase) { checkPDFRoundTrip(t, c) }) }

func c04Account(st *Stats, c PDFCase, res *ref.PDFResult) {
	if res == nil {
		st.Class("rejected")
		return
	}
	st.Class("accepted")
	st.Cover("pdf_shapes", fmt.Sprintf("%dx%d", res.Rows, res.Cols))
	st.Cover("pdf_rows", fmt.Sprint(res.Rows))
	st.Cover("pdf_cols", fmt.Sprint(res.Cols))
	st.Cover("pdf_levels", fmt.Sprint(res.Level))
	for _, p := range res.Patterns {
		st.Cover("pdf_patterns", fmt.Sprintf("%d/%d", p[0], p[1]))
	}
	for _, s := range res.SubModes {
		st.Cover("pdf_submode_transitions", s)
	}
	nseg := 0
	for _, s := range res.Segments {
		if s == "shift913" {
			st.Class("with 913 byte shift")
		} else {
			nseg++
		}
		if strings.HasPrefix(s, "byte") {
			st.Cover("pdf_byte_segments", s)
		}
	}
	if nseg >= 2 || len(res.SubModes) > 0 {
		st.NonTrivial(H(c.Level, c.Content))
	}
	if res.Pads > 0 {
		st.Class("with pad codewords")
	}
}

func TestC04Rapid(t *testing.T) {
	foreignWarmup("pdf417")
	st := NewStats("C04", "rapid")
	runRapid(t, st, func(rt *rapid.T) {
		if rapid.IntRange(0, 19).Draw(rt, "seek") == 0 {
			for _, c := range genPDFSeek(rt) {
				c04Account(st, c, checkPDFRoundTrip(rt, c))
				st.Class("around a size transition of the implementation (found by bisection)")
			}
			return
		}
		c := PDFCase{Content: BStr(genPDFContent(rt)), Level: rapid.IntRange(0, 8).Draw(rt, "level")}
		res := checkPDFRoundTrip(rt, c)
		c04Account(st, c, res)
		if len(c.Content) <= 14 && res != nil {
			st.Sample(fmt.Sprintf("segments %v", res.Segments), c)
		}
	})
}

// TestC04Sweep: codeword counts swept through all row/column shapes: homogeneous contents of
// every length 0..N for three classes x levels.
func TestC04Sweep(t *testing.T) {
	foreignWarmup("pdf417")
	st := NewStats("C04", "sweep")
	defer st.Flush()
	ct := &collectTB{}
	type job struct{ kind, n, level int }
	var jobs []job
	step := 7
	if thorough() {
		step = 1
	}
	for kind := 0; kind < 4; kind++ {
		maxN := []int{3100, 2100, 1300, 1700}[kind] // up to and clearly beyond the 900/928-codeword limits
		for n := 0; n <= maxN; n += step {
			jobs = append(jobs, job{kind, n, (n / step) % 9})
			if n < 120 {
				for l := 0; l < 9; l++ {
					jobs = append(jobs, job{kind, n, l})
				}
			}
		}
	}
	parallelFor(len(jobs), 16, func(i int) {
		if ct.Failed() {
			return
		}
		j := jobs[i]
		ct.guard(func() {
			c := PDFCase{Content: BStr(fillPDF(j.kind, int64(j.n), j.n)), Level: j.level}
			res := checkPDFRoundTrip(ct, c)
			st.Eval()
			c04Account(st, c, res)
			if res != nil {
				st.NonTrivial(H("sweep", j.kind, j.n, j.level))
			}
		})
	})
	// every byte value in six surroundings (inside upper case, lower case, digits, long digit run, alone, doubled)
	var bytesweep []PDFCase
	for b := 0; b < 256; b++ {
		x := string([]byte{byte(b)})
		for k, c := range []string{"AB" + x + "CD", "ab" + x + "cd", "12" + x + "34", "1234567890123" + x + "4567890123456", x, x + x, "A" + x + "b" + x + "1" + x + ";"} {
			bytesweep = append(bytesweep, PDFCase{Content: BStr(c), Level: (b + k) % 9})
		}
	}
	parallelFor(len(bytesweep), 16, func(i int) {
		if ct.Failed() {
			return
		}
		ct.guard(func() {
			res := checkPDFRoundTrip(ct, bytesweep[i])
			st.Eval()
			c04Account(st, bytesweep[i], res)
			st.Class("every byte value in seven surroundings")
		})
	})
	if ct.Failed() {
		t.Fatalf("%s", ct.first)
	}
}
