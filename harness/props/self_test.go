package props

import (
	"testing"

	"verif/ref"
)

// TestSelf* run before every check; a failure means the oracle is broken (exit 2, never a verdict).
func TestSelfPlumbing(t *testing.T) {
	if H("a", 1) == H("a", 2) {
		t.Fatal("hash")
	}
}

func TestSelfOracles(t *testing.T) {
	for name, fn := range map[string]func() error{"1D": ref.SelfTest1D, "QR": ref.SelfTestQR, "DataMatrix": ref.SelfTestDM, "PDF417": ref.SelfTestPDF417, "Aztec": ref.SelfTestAztec} {
		if err := fn(); err != nil {
			t.Fatalf("oracle self-test %s: %v", name, err)
		}
	}
}
