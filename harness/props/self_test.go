package props

import "testing"

// TestSelf* run before every check; a failure means the oracle is broken (exit 2, never a verdict).
func TestSelfPlumbing(t *testing.T) {
	if H("a", 1) == H("a", 2) {
		t.Fatal("hash")
	}
}
