package props

import (
	"hash/crc32"
	"testing"

	"verif/ref"
)

// TestSelf* run before every check; a failure means the oracle is broken (exit 2, never a verdict).
func TestSelfPlumbing(t *testing.T) {
	if H("a", 1) == H("a", 2) {
		t.Fatal("hash")
	}
}

func TestSelfCRCTwin(t *testing.T) {
	a := []byte("ID-IJ0CHWGYCB / payload")
	b := crcTwin(a, 3)
	if len(b) != len(a) || string(a) == string(b) || crc32.ChecksumIEEE(a) != crc32.ChecksumIEEE(b) {
		t.Fatalf("crcTwin broken: %q %q", a, b)
	}
}

func TestSelfOracles(t *testing.T) {
	for name, fn := range map[string]func() error{"1D": ref.SelfTest1D, "QR": ref.SelfTestQR, "DataMatrix": ref.SelfTestDM, "PDF417": ref.SelfTestPDF417, "Aztec": ref.SelfTestAztec} {
		if err := fn(); err != nil {
			t.Fatalf("oracle self-test %s: %v", name, err)
		}
	}
}
