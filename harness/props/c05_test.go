package props

// C05: Code 128 round-trip through an independent decoder, both checksum variants.

import (
	"fmt"
	"strings"
	"testing"
	"unicode/utf8"

	"github.com/boombuler/barcode"
	"github.com/boombuler/barcode/code128"
	"pgregory.net/rapid"
	"verif/ref"
)

type C128Case struct {
	Content  BStr `json:"content"`
	Checksum bool `json:"checksum"`
}

// code128Alphabet: ASCII 0..127 and the four FNC placeholders (132 symbols).
func inCode128Alphabet(r rune) bool {
	return (r >= 0 && r <= 127) || (r >= 0xF1 && r <= 0xF4)
}

// code128Representable is the exact acceptance rule: 1..80 runes, all in the alphabet, valid UTF-8.
func code128Representable(s string) bool {
	if !utf8.ValidString(s) {
		return false
	}
	n := 0
	for _, r := range s {
		if !inCode128Alphabet(r) {
			return false
		}
		n++
	}
	return n >= 1 && n <= 80
}

func genCode128Text(t *rapid.T) string {
	var sb []rune
	nseg := rapid.IntRange(1, 8).Draw(t, "nseg")
	digits := func(n int) {
		for i := 0; i < n; i++ {
			sb = append(sb, rune('0'+rapid.IntRange(0, 9).Draw(t, "d")))
		}
	}
	for s := 0; s < nseg; s++ {
		switch rapid.IntRange(0, 11).Draw(t, "seg") {
		case 0, 1:
			digits(rapid.IntRange(1, 12).Draw(t, "nd"))
		case 2: // FNC1 inside / around digit runs at even or odd offsets
			digits(rapid.IntRange(0, 5).Draw(t, "pre"))
			sb = append(sb, ref.FNC1)
			digits(rapid.IntRange(0, 5).Draw(t, "post"))
		case 3: // control characters (set A only)
			n := rapid.IntRange(1, 4).Draw(t, "nc")
			for i := 0; i < n; i++ {
				sb = append(sb, rune(rapid.IntRange(0, 31).Draw(t, "c")))
			}
		case 4: // lower case (set B only)
			n := rapid.IntRange(1, 4).Draw(t, "nl")
			for i := 0; i < n; i++ {
				sb = append(sb, rune(rapid.IntRange(96, 127).Draw(t, "l")))
			}
		case 5: // characters common to A and B
			n := rapid.IntRange(1, 5).Draw(t, "nu")
			for i := 0; i < n; i++ {
				sb = append(sb, rune(rapid.IntRange(32, 95).Draw(t, "u")))
			}
		case 6:
			sb = append(sb, rune(rapid.SampledFrom([]rune{ref.FNC1, ref.FNC2, ref.FNC3, ref.FNC4}).Draw(t, "fnc")))
		case 7: // control / lower alternation forces A<->B switches
			n := rapid.IntRange(2, 6).Draw(t, "na")
			for i := 0; i < n; i++ {
				if i%2 == 0 {
					sb = append(sb, rune(rapid.IntRange(0, 31).Draw(t, "c")))
				} else {
					sb = append(sb, rune(rapid.IntRange(96, 127).Draw(t, "l")))
				}
			}
		case 8:
			sb = append(sb, 127)
		case 9: // anything from the alphabet
			n := rapid.IntRange(1, 10).Draw(t, "nr")
			for i := 0; i < n; i++ {
				v := rapid.IntRange(0, 131).Draw(t, "any")
				if v < 128 {
					sb = append(sb, rune(v))
				} else {
					sb = append(sb, rune(0xF1+v-128))
				}
			}
		case 10: // long tail to reach the 80-rune boundary
			n := rapid.IntRange(60, 85).Draw(t, "long")
			k := rapid.IntRange(0, 4).Draw(t, "lk")
			for i := 0; i < n; i++ {
				switch k {
				case 0:
					sb = append(sb, rune('0'+i%10))
				case 1:
					sb = append(sb, rune('a'+i%26))
				case 2:
					sb = append(sb, rune(1+i%30))
				case 3: // strict control / lower-case alternation: a code-set switch or shift per character, the only
					// way to more than 103 data symbols within 80 characters (position weights beyond 103)
					sb = append(sb, []rune{rune(1 + i%30), rune('a' + i%26)}[i%2])
				default: // period three: control, lower case, common
					sb = append(sb, []rune{rune(1 + i%30), rune('a' + i%26), rune('A' + i%26)}[i%3])
				}
			}
		default: // digit pair then single char, repeatedly (odd/even digit boundaries)
			n := rapid.IntRange(1, 4).Draw(t, "np")
			for i := 0; i < n; i++ {
				digits(rapid.IntRange(1, 5).Draw(t, "pd"))
				sb = append(sb, rune(rapid.SampledFrom([]rune{'A', 'a', 9, ' ', ref.FNC1}).Draw(t, "sep")))
			}
		}
	}
	if len(sb) > 80 && rapid.IntRange(0, 9).Draw(t, "keeplong") > 0 {
		cut := rapid.SampledFrom([]int{80, 80, 79, 78}).Draw(t, "cut")
		sb = sb[:cut]
	}
	s := string(sb)
	// a few invalid inputs: they must be rejected (counted as trivial)
	switch rapid.IntRange(0, 39).Draw(t, "invalid") {
	case 0:
		s += "é"
	case 1:
		s = "\x80" + s
	case 2:
		s += string(rune(rapid.SampledFrom([]int{0x80, 0xF0, 0xF5, 0xFF, 0x100, 0x20AC}).Draw(t, "bad")))
	case 3:
		s = ""
	case 4: // a rune whose low byte is an ASCII character (byte-truncation alias), or a digit of another script
		r := aliasRune(byte(rapid.IntRange(0, 127).Draw(t, "ac")), rapid.IntRange(0, 199).Draw(t, "ak"))
		if rapid.Bool().Draw(t, "nd") {
			r = rapid.SampledFrom(nonASCIIDigits).Draw(t, "ndr")
		}
		rs := []rune(s)
		p := 0
		if len(rs) > 0 {
			p = rapid.IntRange(0, len(rs)).Draw(t, "ap")
		}
		s = string(rs[:p]) + string(r) + string(rs[p:])
	}
	return s
}

func encode128(content string, checksum bool) (bc barcode.Barcode, err error, pv any) {
	pv = try(func() {
		if checksum {
			var b barcode.BarcodeIntCS
			b, err = code128.Encode(content)
			if b != nil {
				bc = b
			}
		} else {
			bc, err = code128.EncodeWithoutChecksum(content)
		}
	})
	return
}

// checkCode128 returns the decode result (nil if the input was rightly rejected).
func checkCode128(t TB, c C128Case) *ref.Code128Result {
	noteCase("C05", "code128-roundtrip", c)
	content := string(c.Content)
	bc, err, pv := encode128(content, c.Checksum)
	if pv != nil {
		failf(t, "C05", "code128-roundtrip", c, "%v", pv)
	}
	rep := code128Representable(content)
	if err != nil || nilBarcode(bc) {
		if rep {
			failf(t, "C05", "code128-roundtrip", c, "representable content (1..80 runes of the 132-symbol alphabet) rejected: %v", err)
		}
		return nil
	}
	if !rep {
		failf(t, "C05", "code128-roundtrip", c, "content outside the alphabet/length limits was accepted")
	}
	disturb("code128")
	m, merr := modules1D(bc)
	if merr != nil {
		failf(t, "C05", "code128-roundtrip", c, "%v", merr)
	}
	res, derr := ref.DecodeCode128(m, c.Checksum)
	colourVariant(t, "C05", "code128-roundtrip", c, EncSpec{Fam: map[bool]string{true: "code128", false: "code128nc"}[c.Checksum], Content: c.Content}, [][]bool{m})
	if derr != nil {
		failf(t, "C05", "code128-roundtrip", c, "reference decoder: %v", derr)
	}
	if c.Checksum && !res.CheckOK {
		failf(t, "C05", "code128-roundtrip", c, "check character is %d, modulo-103 sum of the symbol is %d", res.Check, res.WantSum)
	}
	if res.Text != content {
		failf(t, "C05", "code128-roundtrip", c, "decodes to %q (values %v)", res.Text, res.Values)
	}
	return res
}

func init() { register("code128-roundtrip", func(t TB, c C128Case) { checkCode128(t, c) }) }

func c05Account(st *Stats, c C128Case, res *ref.Code128Result) {
	if res == nil {
		st.Class("rejected")
		return
	}
	st.Class("accepted")
	for _, v := range res.Values {
		st.Cover("code128_patterns", fmt.Sprint(v))
	}
	if res.Check >= 0 {
		st.Cover("code128_patterns", fmt.Sprint(res.Check))
	}
	st.Cover("start_set", string(res.StartSet))
	for i := 0; i+1 < len(res.UsedSets); i++ {
		st.Cover("set_transitions", res.UsedSets[i:i+2])
	}
	hasFNC := strings.ContainsAny(string(c.Content), "ñòóô")
	if res.Switches > 0 || hasFNC {
		st.NonTrivial(H(c.Content, c.Checksum))
	}
	if n := utf8.RuneCount(c.Content); n >= 79 {
		st.Class(fmt.Sprintf("accepted length %d", n))
	}
	if len(res.Values) > 104 {
		st.Class("more than 103 data symbols (position weights beyond 103)")
	}
}

func TestC05Rapid(t *testing.T) {
	foreignWarmup("code128", "code128nc")
	st := NewStats("C05", "rapid")
	runRapid(t, st, func(rt *rapid.T) {
		c := C128Case{Content: BStr(genCode128Text(rt)), Checksum: rapid.Bool().Draw(rt, "checksum")}
		res := checkCode128(rt, c)
		c05Account(st, c, res)
		if res != nil && len(c.Content) <= 12 {
			st.Sample("sets "+res.UsedSets, c)
		}
	})
}

// TestC05Exhaustive: every string of length 1 and 2 over the 132-symbol alphabet (thorough: plus
// all length-3 strings over a 24-symbol sub-alphabet that spans all code sets), both variants.
func TestC05Exhaustive(t *testing.T) {
	st := NewStats("C05", "exhaustive")
	defer st.Flush()
	var alpha []rune
	for r := rune(0); r < 128; r++ {
		alpha = append(alpha, r)
	}
	alpha = append(alpha, ref.FNC1, ref.FNC2, ref.FNC3, ref.FNC4)
	ct := &collectTB{}
	run := func(s string) {
		for _, cs := range []bool{true, false} {
			c := C128Case{Content: BStr(s), Checksum: cs}
			res := checkCode128(ct, c)
			st.Eval()
			c05Account(st, c, res)
		}
	}
	parallelFor(len(alpha), 16, func(i int) {
		if ct.Failed() {
			return
		}
		ct.guard(func() {
			run(string(alpha[i]))
			for _, b := range alpha {
				run(string([]rune{alpha[i], b}))
			}
		})
	})
	sub := []rune{0, 9, 13, 31, ' ', '0', '1', '5', '9', 'A', 'Z', '_', '`', 'a', 'z', 127, ref.FNC1, ref.FNC2, ref.FNC3, ref.FNC4, '$', '7', 27, '~'}
	depth := 3
	if thorough() {
		depth = 4
	}
	total := 1
	for i := 0; i < depth; i++ {
		total *= len(sub)
	}
	parallelFor(total, 16, func(idx int) {
		if ct.Failed() {
			return
		}
		ct.guard(func() {
			r := make([]rune, depth)
			x := idx
			for i := range r {
				r[i] = sub[x%len(sub)]
				x /= len(sub)
			}
			run(string(r))
		})
	})
	st.Sample("exhaustive", C128Case{Content: BStr("a\t"), Checksum: true})
	st.Set("exhaustive", true)
	st.Set("exhaustive_domain", fmt.Sprintf("all strings of length 1..2 over the 132-symbol alphabet and all strings of length %d over a 24-symbol sub-alphabet spanning sets A/B/C and FNC1-4, x both checksum variants", depth))
	if ct.Failed() {
		t.Fatalf("%s", ct.first)
	}
}
