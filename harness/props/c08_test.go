package props

// C08: Codabar, 2-of-5 (standard and interleaved) and the 2-of-5 check-digit helper.

import (
	"fmt"
	"regexp"
	"strings"
	"sync/atomic"
	"testing"

	"github.com/boombuler/barcode"
	"github.com/boombuler/barcode/codabar"
	"github.com/boombuler/barcode/twooffive"
	"pgregory.net/rapid"
	"verif/ref"
)

type C08Case struct {
	Kind    string `json:"kind"` // codabar, 2of5, itf, addchecksum
	Content BStr   `json:"content"`
}

var codabarRule = regexp.MustCompile(`^[A-D][0-9\-$:/.+]*[A-D]$`)

func c08Representable(c C08Case) bool {
	s := string(c.Content)
	switch c.Kind {
	case "codabar":
		return codabarRule.MatchString(s)
	case "2of5", "addchecksum":
		return len(s) > 0 && allDigits(s)
	case "itf":
		return len(s) > 0 && allDigits(s) && len(s)%2 == 0
	}
	return false
}

// checkC08 returns whether the input was accepted.
func checkC08(t TB, c C08Case) bool {
	noteCase("C08", "codabar-2of5", c)
	const P, K = "C08", "codabar-2of5"
	s := string(c.Content)
	rep := c08Representable(c)
	if c.Kind == "addchecksum" {
		var out string
		var err error
		if pv := try(func() { out, err = twooffive.AddCheckSum(s) }); pv != nil {
			failf(t, P, K, c, "%v", pv)
		}
		if err != nil {
			if rep {
				failf(t, P, K, c, "AddCheckSum rejected a digit string: %v", err)
			}
			if out != "" {
				failf(t, P, K, c, "AddCheckSum returned %q together with an error", out)
			}
			return false
		}
		if !rep {
			failf(t, P, K, c, "AddCheckSum accepted a non-digit/empty string and returned %q", out)
		}
		if len(out) != len(s)+1 || out[:len(s)] != s || out[len(s)] < '0' || out[len(s)] > '9' {
			failf(t, P, K, c, "AddCheckSum returned %q, not the input plus one digit", out)
		}
		if !ref.Check2of5(out) {
			failf(t, P, K, c, "AddCheckSum returned %q whose 3-1 weighted sum (check digit weight 1) is not a multiple of ten", out)
		}
		return true
	}
	var bc barcode.Barcode
	var err error
	if pv := try(func() {
		switch c.Kind {
		case "codabar":
			bc, err = codabar.Encode(s)
		case "2of5":
			bc, err = twooffive.Encode(s, false)
		case "itf":
			bc, err = twooffive.Encode(s, true)
		}
	}); pv != nil {
		failf(t, P, K, c, "%v", pv)
	}
	if err != nil || nilBarcode(bc) {
		if rep {
			failf(t, P, K, c, "representable text rejected: %v", err)
		}
		return false
	}
	if !rep {
		failf(t, P, K, c, "unrepresentable text accepted (Content()=%q)", bc.Content())
	}
	if len(s) > 3 || c.Kind == "codabar" {
		disturb(map[string]string{"codabar": "codabar", "2of5": "2of5", "itf": "itf"}[c.Kind])
	}
	m, merr := modules1D(bc)
	if merr != nil {
		failf(t, P, K, c, "%v", merr)
	}
	colourVariant(t, P, K, c, EncSpec{Fam: c.Kind, Content: c.Content}, [][]bool{m})
	var got string
	var derr error
	switch c.Kind {
	case "codabar":
		got, derr = ref.DecodeCodabar(m)
	case "2of5":
		got, derr = ref.Decode2of5(m, false)
	case "itf":
		got, derr = ref.Decode2of5(m, true)
	}
	if derr != nil {
		failf(t, P, K, c, "reference decoder: %v", derr)
	}
	if got != s {
		failf(t, P, K, c, "symbol decodes to %q", got)
	}
	return true
}

func init() { register("codabar-2of5", func(t TB, c C08Case) { checkC08(t, c) }) }

func c08Account(st *Stats, c C08Case, ok bool) {
	if !ok {
		st.Class("rejected " + c.Kind)
		return
	}
	st.Class("accepted " + c.Kind)
	st.NonTrivial(H(c.Kind, c.Content))
	if c.Kind == "codabar" {
		for _, b := range c.Content {
			st.Cover("codabar_chars", string(b))
		}
	}
}

const codabarAlphabet = "0123456789-$:/.+ABCD"

func genC08(t *rapid.T) C08Case {
	kind := rapid.SampledFrom([]string{"codabar", "codabar", "2of5", "itf", "addchecksum"}).Draw(t, "kind")
	var s string
	if kind == "codabar" {
		n := rapid.IntRange(0, 40).Draw(t, "n")
		if rapid.IntRange(0, 15).Draw(t, "long") == 0 {
			n = rapid.IntRange(370, 900).Draw(t, "longn") // symbols wider than 4096 / 8192 modules
		}
		b := []byte{"ABCD"[rapid.IntRange(0, 3).Draw(t, "start")]}
		for i := 0; i < n; i++ {
			b = append(b, codabarAlphabet[rapid.IntRange(0, 15).Draw(t, "c")])
		}
		b = append(b, "ABCD"[rapid.IntRange(0, 3).Draw(t, "stop")])
		s = string(b)
		switch rapid.IntRange(0, 19).Draw(t, "invalid") {
		case 0:
			s = s[1:]
		case 1:
			s = s[:len(s)-1]
		case 2:
			s = s + s
		case 3:
			s = s + "\n"
		case 4:
			s = "!" + s
		case 5:
			s = s[:1] + rapid.SampledFrom([]string{"a", "E", "*", "é", " ", "A"}).Draw(t, "bad") + s[1:]
		case 6:
			s = rapid.SampledFrom([]string{"", "!", "A", "AB!", "!AB", "12", "a1b"}).Draw(t, "junk")
		case 8: // alias rune of a Codabar character / digit of another script in the body
			r := aliasRune(codabarAlphabet[rapid.IntRange(0, 19).Draw(t, "ac")], rapid.IntRange(0, 199).Draw(t, "ak"))
			if rapid.Bool().Draw(t, "nd") {
				r = rapid.SampledFrom(nonASCIIDigits).Draw(t, "ndr")
			}
			p := rapid.IntRange(0, len(s)).Draw(t, "ap")
			s = s[:p] + string(r) + s[p:]
		case 7: // near-miss start/stop letters (other Codabar dialects use E, T, N, *; lower case)
			x := rapid.SampledFrom([]string{"E", "T", "N", "*", "a", "b", "c", "d", "e", "F", "0", "-"}).Draw(t, "nearmiss")
			if rapid.Bool().Draw(t, "atstart") {
				s = x + s[1:]
			} else {
				s = s[:len(s)-1] + x
			}
		}
	} else {
		n := rapid.IntRange(1, 60).Draw(t, "n")
		if rapid.IntRange(0, 15).Draw(t, "long") == 0 {
			n = rapid.IntRange(220, 700).Draw(t, "longn")
		}
		if kind == "itf" && rapid.IntRange(0, 4).Draw(t, "odd") > 0 {
			n += n % 2
		}
		b := make([]byte, n)
		var palette []int // one case in five: all digits from one or two values (all nines, 9090..., extreme weighted sums)
		if rapid.IntRange(0, 4).Draw(t, "lowentropy") == 0 {
			palette = []int{rapid.SampledFrom([]int{9, 0, 1, 5, 8, 2, 3, 4, 6, 7}).Draw(t, "p0"), rapid.IntRange(0, 9).Draw(t, "p1")}
			if rapid.Bool().Draw(t, "single") {
				palette = palette[:1]
			}
		}
		for i := range b {
			if palette != nil {
				b[i] = byte('0' + palette[rapid.IntRange(0, len(palette)-1).Draw(t, "pd")])
				continue
			}
			b[i] = byte('0' + rapid.IntRange(0, 9).Draw(t, "d"))
		}
		s = string(b)
		switch rapid.IntRange(0, 24).Draw(t, "invalid") {
		case 0:
			s = ""
		case 1:
			s += "a"
		case 2: // a multi-byte rune giving an even byte length
			s += rapid.SampledFrom([]string{"é", "٣", "１", "éé", "€"}).Draw(t, "mb")
		case 3:
			s = "-" + s
		case 4:
			s = s[:len(s)/2] + rapid.SampledFrom([]string{" ", "x", "é", "\x00"}).Draw(t, "mid") + s[len(s)/2:]
		case 5, 6: // alias rune of a digit / digit of another script, keeping or breaking the byte-length parity
			r := aliasRune(byte('0'+rapid.IntRange(0, 9).Draw(t, "ad")), rapid.IntRange(0, 199).Draw(t, "ak"))
			if rapid.Bool().Draw(t, "nd") {
				r = rapid.SampledFrom(nonASCIIDigits).Draw(t, "ndr")
			}
			p := rapid.IntRange(0, len(s)).Draw(t, "ap")
			s = s[:p] + string(r) + s[p:]
		}
	}
	return C08Case{Kind: kind, Content: BStr(s)}
}

func TestC08Rapid(t *testing.T) {
	foreignWarmup("codabar", "2of5", "itf")
	st := NewStats("C08", "rapid")
	runRapid(t, st, func(rt *rapid.T) {
		c := genC08(rt)
		ok := checkC08(rt, c)
		c08Account(st, c, ok)
		if len(c.Content) <= 6 {
			st.Sample(fmt.Sprintf("%s ok=%v", c.Kind, ok), c)
		}
	})
}

// TestC08Exhaustive: all Codabar-alphabet strings up to length 4 (thorough: 6); all digit strings
// up to length 5 (thorough: 7) for both 2-of-5 variants and AddCheckSum.
func TestC08Exhaustive(t *testing.T) {
	st := NewStats("C08", "exhaustive")
	defer st.Flush()
	ct := &collectTB{}
	maxC, maxD := 4, 5
	if thorough() {
		maxC, maxD = 6, 7
	}
	var evals, acc int64
	for l := 0; l <= maxC; l++ {
		total := 1
		for i := 0; i < l; i++ {
			total *= 20
		}
		chunk := 4000
		parallelFor((total+chunk-1)/chunk, 16, func(ci int) {
			if ct.Failed() {
				return
			}
			ct.guard(func() {
				var e, a int64
				b := make([]byte, l)
				for idx := ci * chunk; idx < total && idx < (ci+1)*chunk; idx++ {
					x := idx
					for i := l - 1; i >= 0; i-- {
						b[i] = codabarAlphabet[x%20]
						x /= 20
					}
					if checkC08(ct, C08Case{Kind: "codabar", Content: BStr(string(b))}) {
						a++
					}
					e++
				}
				atomic.AddInt64(&evals, e)
				atomic.AddInt64(&acc, a)
			})
		})
	}
	st.ClassN("codabar enumerated", evals)
	st.ClassN("accepted codabar", acc)
	var devals, dacc int64
	for l := 1; l <= maxD; l++ {
		total := 1
		for i := 0; i < l; i++ {
			total *= 10
		}
		chunk := 5000
		parallelFor((total+chunk-1)/chunk, 16, func(ci int) {
			if ct.Failed() {
				return
			}
			ct.guard(func() {
				var e, a int64
				b := make([]byte, l)
				for idx := ci * chunk; idx < total && idx < (ci+1)*chunk; idx++ {
					x := idx
					for i := l - 1; i >= 0; i-- {
						b[i] = byte('0' + x%10)
						x /= 10
					}
					for _, k := range []string{"2of5", "itf", "addchecksum"} {
						if checkC08(ct, C08Case{Kind: k, Content: BStr(string(b))}) {
							a++
						}
						e++
					}
				}
				atomic.AddInt64(&devals, e)
				atomic.AddInt64(&dacc, a)
			})
		})
	}
	st.EvalN(evals + devals)
	st.NonTrivialN(acc + dacc)
	st.ClassN("digit strings x3 enumerated", devals)
	st.ClassN("accepted digit cases", dacc)
	st.Sample("exhaustive", C08Case{Kind: "codabar", Content: BStr("A$+D")})
	st.Set("exhaustive", true)
	st.Set("exhaustive_domain", fmt.Sprintf("all strings of length 0..%d over the 20 Codabar characters; all digit strings of length 1..%d for standard, interleaved and AddCheckSum", maxC, maxD))
	if ct.Failed() {
		t.Fatalf("%s", ct.first)
	}
	_ = strings.Repeat
}

// TestC08Long: no length limit in Codabar and 2 of 5 either: very long contents (symbols of several hundred thousand
// modules, digit strings far beyond any machine integer, weighted sums beyond 16 bits).
func TestC08Long(t *testing.T) {
	st := NewStats("C08", "long")
	defer st.Flush()
	ct := &collectTB{}
	var cases []C08Case
	for _, n := range []int{4000, 30000, 70000} {
		cases = append(cases, C08Case{Kind: "codabar", Content: BStr("A" + strings.Repeat("9+.:/$-0", n/8) + "D")},
			C08Case{Kind: "2of5", Content: BStr(strings.Repeat("9", n))}, C08Case{Kind: "itf", Content: BStr(strings.Repeat("98", n/2))},
			C08Case{Kind: "addchecksum", Content: BStr(strings.Repeat("9", n))}, C08Case{Kind: "addchecksum", Content: BStr(strings.Repeat("97", n/2) + "3")},
			C08Case{Kind: "2of5", Content: BStr(strings.Repeat("0123456789", n/10))})
	}
	parallelFor(len(cases), 16, func(i int) {
		if ct.Failed() {
			return
		}
		ct.guard(func() {
			ok := checkC08(ct, cases[i])
			st.Eval()
			c08Account(st, cases[i], ok)
			st.Class(fmt.Sprintf("content of %d characters", len(cases[i].Content)))
		})
	})
	st.Sample("long", map[string]any{"lengths": []int{4000, 30000, 70000}})
	if ct.Failed() {
		t.Fatalf("%s", ct.first)
	}
}
