package props

// C12: the requested error-correction strength is what the symbol declares and carries.

import (
	"fmt"
	"testing"

	"pgregory.net/rapid"
	"verif/ref"
)

type C12Case struct {
	Sym   string     `json:"sym"` // qr, pdf417, aztec, datamatrix
	QR    *QRCase    `json:"qr,omitempty"`
	PDF   *PDFCase   `json:"pdf,omitempty"`
	Aztec *AztecCase `json:"aztec,omitempty"`
	DM    *DMCase    `json:"dm,omitempty"`
}

// checkC12 returns a class label, "" when the encoder rejected the input.
func checkC12(t TB, st *Stats, c C12Case) string {
	noteCase("C12", "ec-strength", c)
	const P, K = "C12", "ec-strength"
	switch c.Sym {
	case "qr":
		res, ok := qrDecodeChecked(t, P, K, *c.QR)
		if !ok {
			return ""
		}
		if res.Level != c.QR.Level {
			failf(t, P, K, c, "format information declares level %s, requested %s", "LMQH"[res.Level:res.Level+1], "LMQH"[c.QR.Level:c.QR.Level+1])
		}
		// the reader de-interleaved with the ISO block table of (version, declared level) and found every block
		// RS-valid with exactly that many check codewords; cross-check the count against the table once more
		want := 0
		for _, g := range ref.QRBlocks[res.Version-1][c.QR.Level] {
			want = g.Total - g.Data
		}
		if res.ECCPerBlk != want {
			failf(t, P, K, c, "blocks carry %d check codewords, ISO table says %d for %d-%s", res.ECCPerBlk, want, res.Version, "LMQH"[c.QR.Level:c.QR.Level+1])
		}
		return fmt.Sprintf("qr level %s", "LMQH"[res.Level:res.Level+1])
	case "pdf417":
		bc, err, pv := pdfEncode(*c.PDF)
		if pv != nil {
			failf(t, P, K, c, "%v", pv)
		}
		if err != nil || nilBarcode(bc) {
			return ""
		}
		m, merr := matrix2D(bc)
		if merr != nil {
			failf(t, P, K, c, "%v", merr)
		}
		res, derr := ref.DecodePDF417(m)
		if derr != nil {
			failf(t, P, K, c, "reference reader: %v", derr)
		}
		if res.Level != c.PDF.Level {
			failf(t, P, K, c, "row indicators declare security level %d, requested %d", res.Level, c.PDF.Level)
		}
		k := 2 << uint(c.PDF.Level)
		if res.Rows*res.Cols-res.Length != k {
			failf(t, P, K, c, "symbol carries %d check codewords, level %d requires %d", res.Rows*res.Cols-res.Length, c.PDF.Level, k)
		}
		if !ref.AllZero(ref.PDFSyndromes(res.Codewords, k)) {
			failf(t, P, K, c, "the %d check codewords are not valid", k)
		}
		return fmt.Sprintf("pdf417 level %d", res.Level)
	case "datamatrix":
		bc, err, pv := dmEncode(*c.DM)
		if pv != nil {
			failf(t, P, K, c, "%v", pv)
		}
		if err != nil || nilBarcode(bc) {
			return ""
		}
		m, merr := matrix2D(bc)
		if merr != nil {
			failf(t, P, K, c, "%v", merr)
		}
		res, derr := ref.DecodeDataMatrix(m)
		if derr != nil {
			// the reader validates every block with the ECC 200 check word count of the size
			failf(t, P, K, c, "reference reader: %v", derr)
		}
		return fmt.Sprintf("datamatrix %d blocks", res.Size.Blocks)
	case "aztec":
		if len(c.Aztec.Payload) == 0 && knownFinding("C03", "F11-aztec-empty-payload") {
			if st != nil {
				st.Excluded("F11-aztec-empty-payload (C03)")
			}
			return ""
		}
		bc, err, pv := aztecEncode(*c.Aztec)
		if pv != nil {
			failf(t, P, K, c, "%v", pv)
		}
		if err != nil || nilBarcode(bc) {
			return ""
		}
		m, merr := matrix2D(bc)
		if merr != nil {
			failf(t, P, K, c, "%v", merr)
		}
		res, derr := ref.DecodeAztec(m)
		if derr != nil {
			failf(t, P, K, c, "reference reader: %v", derr)
		}
		checkBits := res.CheckWords * res.WordSize
		// LastOutput is a lower bound of the number of data bits the encoder produced
		if checkBits*100 < c.Aztec.ECC*res.LastOutput {
			failf(t, P, K, c, "%d check words x %d bits = %d bits are less than %d%% of the (at least) %d data bits", res.CheckWords, res.WordSize, checkBits, c.Aztec.ECC, res.LastOutput)
		}
		if res.DataWords+res.CheckWords != res.TotalWords || res.CheckWords < 1 {
			failf(t, P, K, c, "mode message declares %d data words of %d: %d check words", res.DataWords, res.TotalWords, res.CheckWords)
		}
		cls := "aztec pct<=25"
		switch {
		case c.Aztec.ECC > 100:
			cls = "aztec pct>100"
		case c.Aztec.ECC > 50:
			cls = "aztec pct 51-100"
		case c.Aztec.ECC > 25:
			cls = "aztec pct 26-50"
		}
		// tight = the next smaller amount of check words would already violate the request
		if (checkBits-res.WordSize*3)*100 < c.Aztec.ECC*res.LastOutput {
			st2 := cls + " (tight: within 3 words of the minimum)"
			if st != nil {
				st.Class(st2)
			}
		}
		return cls
	}
	t.Fatalf("unknown symbology %q", c.Sym)
	return ""
}

func init() {
	register("ec-strength", func(t TB, c C12Case) { checkC12(t, nil, c) })
}

func genC12(t *rapid.T) C12Case {
	if rapid.IntRange(0, 11).Draw(t, "seek") == 0 {
		// one content next to a size transition of the implementation (seek_test.go): where a symbol chosen too
		// large, or check words lost at a size change, would show
		pick := func(n int) int { return rapid.IntRange(0, n-1).Draw(t, "seekpick") }
		switch rapid.IntRange(0, 3).Draw(t, "seeksym") {
		case 0:
			if cs := genQRSeek(t); len(cs) > 0 {
				return C12Case{Sym: "qr", QR: &cs[pick(len(cs))]}
			}
		case 1:
			if cs := genDMSeek(t); len(cs) > 0 {
				return C12Case{Sym: "datamatrix", DM: &cs[pick(len(cs))]}
			}
		case 2:
			if cs := genAztecSeek(t); len(cs) > 0 {
				return C12Case{Sym: "aztec", Aztec: &cs[pick(len(cs))]}
			}
		default:
			if cs := genPDFSeek(t); len(cs) > 0 {
				return C12Case{Sym: "pdf417", PDF: &cs[pick(len(cs))]}
			}
		}
	}
	switch rapid.IntRange(0, 9).Draw(t, "sym") {
	case 0, 1, 2:
		q := genQRCase(t)
		return C12Case{Sym: "qr", QR: &q}
	case 3, 4:
		p := PDFCase{Content: BStr(genPDFContent(t)), Level: rapid.IntRange(0, 8).Draw(t, "level")}
		return C12Case{Sym: "pdf417", PDF: &p}
	case 5:
		d := genDMCase(t)
		return C12Case{Sym: "datamatrix", DM: &d}
	default:
		a := genAztecCase(t)
		if !aztecLayersValid(a.Layers) {
			a.Layers = 0
		}
		return C12Case{Sym: "aztec", Aztec: &a}
	}
}

func c12Hash(c C12Case) uint64 {
	switch c.Sym {
	case "qr":
		return H("qr", c.QR.Level, c.QR.Mode, c.QR.Content)
	case "pdf417":
		return H("pdf", c.PDF.Level, c.PDF.Content)
	case "datamatrix":
		return H("dm", c.DM.Content)
	}
	return H("az", c.Aztec.ECC, c.Aztec.Layers, c.Aztec.Payload)
}

func TestC12Rapid(t *testing.T) {
	st := NewStats("C12", "rapid")
	runRapid(t, st, func(rt *rapid.T) {
		c := genC12(rt)
		cls := checkC12(rt, st, c)
		if cls == "" {
			st.Class("rejected " + c.Sym)
			return
		}
		st.Class(cls)
		st.NonTrivial(c12Hash(c))
		st.Sample(cls, c)
	})
}

// TestC12Sweep: every QR (version, level), every PDF417 level at several sizes, every Aztec size x
// percentages with payloads sized to just fit.
func TestC12Sweep(t *testing.T) {
	st := NewStats("C12", "sweep")
	defer st.Flush()
	ct := &collectTB{}
	var cases []C12Case
	// contents whose check words contain zeros at the front, at the end or inside (constructed, see zeroecc_test.go)
	for _, q := range qrZeroECCCases(8) {
		q := q
		cases = append(cases, C12Case{Sym: "qr", QR: &q})
	}
	for _, d := range dmZeroECCCases() {
		d := d
		cases = append(cases, C12Case{Sym: "datamatrix", DM: &d})
	}
	for v := 1; v <= 40; v++ {
		for l := 0; l < 4; l++ {
			n := qrCapacity(v, l, 4)
			q := QRCase{Content: BStr(fillPattern(3, int64(v*7+l), n)), Level: l, Mode: 3}
			cases = append(cases, C12Case{Sym: "qr", QR: &q})
		}
	}
	for l := 0; l <= 8; l++ {
		for _, n := range []int{0, 1, 10, 50, 200, 500} {
			p := PDFCase{Content: BStr(fillPDF(3, int64(n+l), n)), Level: l}
			cases = append(cases, C12Case{Sym: "pdf417", PDF: &p})
		}
	}
	for i, s := range ref.DMSizes {
		d := DMCase{Content: BStr(dmFit(nil, s.Data, byte('A'+i)))}
		cases = append(cases, C12Case{Sym: "datamatrix", DM: &d})
	}
	for _, pct := range []int{0, 5, 23, 33, 50, 75, 100, 200} {
		for n := 1; n <= 1500; n = n*5/4 + 1 {
			for kind := 0; kind < 2; kind++ {
				p := make([]byte, n)
				for i := range p {
					if kind == 0 {
						p[i] = "ABCDEFGH IJKLMNOPQRS"[i%20]
					} else {
						p[i] = byte(130 + i%90)
					}
				}
				a := AztecCase{Payload: BStr(p), ECC: pct}
				cases = append(cases, C12Case{Sym: "aztec", Aztec: &a})
			}
		}
	}
	// Aztec, explicit sizes, payloads that need maximal bit stuffing (runs of 0x00 / 0xFF): the largest accepted
	// payload of each (size, percentage) and its neighbours
	for l := -4; l <= 32; l++ {
		if l == 0 || (l > 8 && l%4 != 0) {
			continue
		}
		compact, n := l < 0, l
		if compact {
			n = -l
		}
		for _, pct := range []int{5, 33, 50, 100} {
			for _, v := range []byte{0x00, 0xFF} {
				k := ref.AztecTotalBits(compact, n)*100/(100+pct)/8 + 2
				for ; k > 0; k-- {
					a := AztecCase{Payload: BStr(bytesRepeat(v, k)), ECC: pct, Layers: l}
					if bc, err, pv := aztecEncode(a); pv != nil || (err == nil && !nilBarcode(bc)) {
						break
					}
				}
				for d := 0; d < 3 && k-d > 0; d++ {
					a := AztecCase{Payload: BStr(bytesRepeat(v, k-d)), ECC: pct, Layers: l}
					cases = append(cases, C12Case{Sym: "aztec", Aztec: &a})
				}
			}
		}
	}
	parallelFor(len(cases), 16, func(i int) {
		if ct.Failed() {
			return
		}
		ct.guard(func() {
			cls := checkC12(ct, st, cases[i])
			st.Eval()
			if cls != "" {
				st.Class(cls)
				st.NonTrivial(c12Hash(cases[i]))
			} else {
				st.Class("rejected " + cases[i].Sym)
			}
		})
	})
	if ct.Failed() {
		t.Fatalf("%s", ct.first)
	}
}

func bytesRepeat(v byte, n int) []byte {
	out := make([]byte, n)
	for i := range out {
		out[i] = v
	}
	return out
}
