package props

// C02: DataMatrix round-trip through an independent ECC 200 reader.

import (
	"bytes"
	"fmt"
	"strings"
	"testing"

	"github.com/boombuler/barcode"
	"github.com/boombuler/barcode/datamatrix"
	"pgregory.net/rapid"
	"verif/ref"
)

type DMCase struct {
	Content BStr `json:"content"`
}

func dmEncode(c DMCase) (bc barcode.Barcode, err error, pv any) {
	pv = try(func() { bc, err = datamatrix.Encode(string(c.Content)) })
	return
}

// dmFit appends/removes bytes until the content needs exactly cw ASCII-encodation codewords.
func dmFit(content []byte, cw int, filler byte) []byte {
	for ref.DMAsciiCodewords(content) > cw && len(content) > 0 {
		content = content[:len(content)-1]
	}
	for ref.DMAsciiCodewords(content) < cw {
		content = append(content, filler)
	}
	return content
}

func genDMContent(t *rapid.T, cw int) []byte {
	var out []byte
	shape := rapid.IntRange(0, 5).Draw(t, "shape")
	np := cw
	if np > 30 {
		np = 30
	}
	for i := 0; i < np && ref.DMAsciiCodewords(out) < cw; i++ {
		k := shape
		if shape >= 3 {
			k = rapid.IntRange(0, 4).Draw(t, "tok")
		}
		switch k {
		case 0:
			out = append(out, byte(rapid.IntRange(0, 127).Draw(t, "a")))
		case 1:
			out = append(out, byte('0'+rapid.IntRange(0, 9).Draw(t, "d1")), byte('0'+rapid.IntRange(0, 9).Draw(t, "d2")))
		case 2:
			out = append(out, byte(rapid.IntRange(128, 255).Draw(t, "h")))
		case 3: // odd digit runs
			n := rapid.SampledFrom([]int{1, 3, 5}).Draw(t, "odd")
			for j := 0; j < n; j++ {
				out = append(out, byte('0'+rapid.IntRange(0, 9).Draw(t, "d")))
			}
		default: // digit letter digit
			out = append(out, byte('0'+rapid.IntRange(0, 9).Draw(t, "d")), 'x', byte('0'+rapid.IntRange(0, 9).Draw(t, "d")))
		}
	}
	// bulk part from a pattern seed
	seed := int64(rapid.IntRange(0, 1<<30).Draw(t, "fill"))
	for i := 0; ref.DMAsciiCodewords(out) < cw-2; i++ {
		x := uint64(seed)*0x9E3779B97F4A7C15 + uint64(i+1)*0xBF58476D1CE4E5B9
		x ^= x >> 29
		switch shape {
		case 0:
			out = append(out, byte(x>>8)&0x7F)
		case 1:
			out = append(out, byte('0'+(x>>8)%10), byte('0'+(x>>16)%10))
		case 2:
			out = append(out, byte(x>>8)|0x80)
		default:
			out = append(out, byte(x>>8))
		}
	}
	filler := rapid.SampledFrom([]byte{'A', 0, 127, ' '}).Draw(t, "filler")
	if rapid.IntRange(0, 11).Draw(t, "latin1") == 0 {
		// valid UTF-8 text with runes <= U+00FF somewhere in the content
		l1 := []byte(latin1Text(t, 12))
		p := 0
		if len(out) > 0 {
			p = rapid.IntRange(0, len(out)).Draw(t, "l1at")
		}
		out = append(append(append([]byte{}, out[:p]...), l1...), out[p:]...)
	}
	return dmFit(out, cw, filler)
}

func genDMCase(t *rapid.T) DMCase {
	si := rapid.IntRange(0, 23).Draw(t, "size")
	if rapid.IntRange(0, 3).Draw(t, "small") == 0 {
		si = rapid.IntRange(0, 9).Draw(t, "smallsize")
	}
	hi := ref.DMSizes[si].Data
	lo := 1
	if si > 0 {
		lo = ref.DMSizes[si-1].Data + 1
	}
	var cw int
	switch rapid.IntRange(0, 9).Draw(t, "lenkind") {
	case 0, 1:
		cw = hi
	case 2:
		cw = lo
	case 3:
		cw = hi - 1
	case 4:
		cw = hi - 2 // exactly two pads: first randomised pad
	case 5:
		if si == 23 {
			cw = hi + rapid.IntRange(1, 3).Draw(t, "over")
		} else {
			cw = rapid.IntRange(0, 3).Draw(t, "tiny")
		}
	default:
		cw = rapid.IntRange(lo, hi).Draw(t, "cw")
	}
	if cw < 0 {
		cw = 0
	}
	return DMCase{Content: BStr(genDMContent(t, cw))}
}

// checkDMRoundTrip returns the reader's result (nil when rejected).
func checkDMRoundTrip(t TB, c DMCase) *ref.DMResult {
	noteCase("C02", "datamatrix-roundtrip", c)
	const P, K = "C02", "datamatrix-roundtrip"
	if n := len(c.Content); n >= 5 && n <= 300 {
		dmEncode(DMCase{Content: BStr(crcTwin(c.Content, n))})
	}
	bc, err, pv := dmEncode(c)
	if pv != nil {
		failf(t, P, K, c, "%v", pv)
	}
	need := ref.DMAsciiCodewords(c.Content)
	if err != nil || nilBarcode(bc) {
		if need <= 1558 {
			failf(t, P, K, c, "content needing %d ASCII-encodation codewords (capacity 1558) rejected: %v", need, err)
		}
		return nil
	}
	disturb("datamatrix")
	m, merr := matrix2D(bc)
	if merr != nil {
		failf(t, P, K, c, "%v", merr)
	}
	res, derr := ref.DecodeDataMatrix(m)
	colourVariant(t, P, K, c, EncSpec{Fam: "datamatrix", Content: c.Content}, m)
	if derr != nil {
		failf(t, P, K, c, "reference reader (content of %d codewords): %v", need, derr)
	}
	if !bytes.Equal(res.Content, c.Content) {
		failf(t, P, K, c, "%dx%d symbol decodes to %q", res.Size.N, res.Size.N, truncS(res.Content))
	}
	return res
}

func init() { register("datamatrix-roundtrip", func(t TB, c DMCase) { checkDMRoundTrip(t, c) }) }

func c02Account(st *Stats, c DMCase, res *ref.DMResult) {
	if res == nil {
		st.Class("rejected")
		return
	}
	st.Class("accepted")
	st.NonTrivial(H(c.Content))
	st.Cover("dm_sizes", fmt.Sprint(res.Size.N))
	st.Cover("dm_blocks", fmt.Sprint(res.Size.Blocks))
	st.Cover("dm_corner_cases", fmt.Sprint(res.Corner))
	if res.UpperShift > 0 {
		st.Class("with upper shift")
	}
	if res.Pads >= 2 {
		st.Class("with >=2 pads (randomised)")
	}
	if res.Pads == 0 {
		st.Class("no pad (at capacity)")
	}
	if res.DigitPairs > 0 {
		st.Class("with digit pairs")
	}
	if res.FixedPat {
		st.Class("with fixed lower-right pattern")
	}
}

func TestC02Rapid(t *testing.T) {
	foreignWarmup("datamatrix")
	st := NewStats("C02", "rapid")
	runRapid(t, st, func(rt *rapid.T) {
		if rapid.IntRange(0, 19).Draw(rt, "seek") == 0 {
			for _, c := range genDMSeek(rt) {
				c02Account(st, c, checkDMRoundTrip(rt, c))
				st.Class("around a size transition of the implementation (found by bisection)")
			}
			return
		}
		c := genDMCase(rt)
		res := checkDMRoundTrip(rt, c)
		c02Account(st, c, res)
		if len(c.Content) <= 12 {
			st.Sample("small", c)
		}
	})
}

// TestC02Sweep: every size at its capacity and at the smallest codeword count that needs it,
// with three content shapes (ASCII, digit pairs, upper-shift bytes); plus capacity+1.
func TestC02Sweep(t *testing.T) {
	foreignWarmup("datamatrix")
	st := NewStats("C02", "sweep")
	defer st.Flush()
	ct := &collectTB{}
	type job struct{ si, cw, shape int }
	var jobs []job
	for si := range ref.DMSizes {
		lo := 0
		if si > 0 {
			lo = ref.DMSizes[si-1].Data + 1
		}
		for shape := 0; shape < 3; shape++ {
			jobs = append(jobs, job{si, ref.DMSizes[si].Data, shape}, job{si, lo, shape}, job{si, ref.DMSizes[si].Data - 1, shape})
		}
	}
	parallelFor(len(jobs), 16, func(i int) {
		if ct.Failed() {
			return
		}
		j := jobs[i]
		ct.guard(func() {
			var content []byte
			for k := 0; ref.DMAsciiCodewords(content) < j.cw; k++ {
				switch j.shape {
				case 0:
					content = append(content, byte('A'+k%26))
				case 1:
					content = append(content, byte('0'+k%10), byte('0'+(k/10)%10))
				default:
					content = append(content, byte(128+k%128))
				}
			}
			content = dmFit(content, j.cw, 'z')
			c := DMCase{Content: BStr(content)}
			res := checkDMRoundTrip(ct, c)
			st.Eval()
			if res == nil {
				failf(ct, "C02", "datamatrix-roundtrip", c, "content of %d codewords rejected", j.cw)
			}
			c02Account(st, c, res)
			if len(content) <= 10 {
				st.Sample("sweep", c)
			}
		})
	})
	// contents whose codeword count wraps a 16- or 17-bit counter back into the valid range
	for _, k := range []int{1 << 16, 1<<16 + 3, 1<<16 + 1000, 1<<16 + 1558, 1 << 17, 1<<17 + 100} {
		for _, c := range []DMCase{{Content: BStr(strings.Repeat("A", k))}, {Content: BStr(strings.Repeat("42", k))}, {Content: BStr(strings.Repeat("\x99", k/2))}} {
			ct.guard(func() {
				c02Account(st, c, checkDMRoundTrip(ct, c))
				st.Eval()
			})
		}
	}
	// every byte value in five surroundings (between letters, between digits, alone, after one digit, doubled)
	var bytesweep []DMCase
	for b := 0; b < 256; b++ {
		x := string([]byte{byte(b)})
		for _, c := range []string{"AB" + x + "CD", "12" + x + "34", x, "7" + x, x + x, x + "5" + x} {
			bytesweep = append(bytesweep, DMCase{Content: BStr(c)})
		}
	}
	parallelFor(len(bytesweep), 16, func(i int) {
		if ct.Failed() {
			return
		}
		ct.guard(func() {
			res := checkDMRoundTrip(ct, bytesweep[i])
			st.Eval()
			c02Account(st, bytesweep[i], res)
			st.Class("every byte value in six surroundings")
		})
	})
	if ct.Failed() {
		t.Fatalf("%s", ct.first)
	}
}
