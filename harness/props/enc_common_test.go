package props

// A uniform description of "one call of one exported encoder", used by C09, C10, C11, C15, C16
// and by cmd/oneshot (which has its own copy of the decoding side in package main).

import (
	"fmt"
	"image/color"

	"github.com/boombuler/barcode"
	"github.com/boombuler/barcode/aztec"
	"github.com/boombuler/barcode/codabar"
	"github.com/boombuler/barcode/code128"
	"github.com/boombuler/barcode/code39"
	"github.com/boombuler/barcode/code93"
	"github.com/boombuler/barcode/datamatrix"
	"github.com/boombuler/barcode/ean"
	"github.com/boombuler/barcode/pdf417"
	"github.com/boombuler/barcode/qr"
	"github.com/boombuler/barcode/twooffive"
	"pgregory.net/rapid"
)

type ColorSpec struct {
	Model string    `json:"model"` // gray, gray16, rgba, nrgba, cmyk
	V     [4]uint16 `json:"v"`
}

func (c ColorSpec) Color() color.Color {
	switch c.Model {
	case "gray":
		return color.Gray{Y: uint8(c.V[0])}
	case "gray16":
		return color.Gray16{Y: c.V[0]}
	case "rgba":
		return color.RGBA{R: uint8(c.V[0]), G: uint8(c.V[1]), B: uint8(c.V[2]), A: uint8(c.V[3])}
	case "nrgba":
		return color.NRGBA{R: uint8(c.V[0]), G: uint8(c.V[1]), B: uint8(c.V[2]), A: uint8(c.V[3])}
	case "cmyk":
		return color.CMYK{C: uint8(c.V[0]), M: uint8(c.V[1]), Y: uint8(c.V[2]), K: uint8(c.V[3])}
	}
	return color.Gray16{Y: c.V[0]}
}

func colorModelOf(name string) color.Model {
	switch name {
	case "gray":
		return color.GrayModel
	case "gray16":
		return color.Gray16Model
	case "rgba":
		return color.RGBAModel
	case "nrgba":
		return color.NRGBAModel
	case "cmyk":
		return color.CMYKModel
	}
	return color.Gray16Model
}

type SchemeSpec struct {
	Predefined int       `json:"predefined"` // 0 = custom, 1..4 = ColorScheme8/16/24/32
	FG         ColorSpec `json:"fg"`
	BG         ColorSpec `json:"bg"`
}

func (s SchemeSpec) Scheme() barcode.ColorScheme {
	switch s.Predefined {
	case 1:
		return barcode.ColorScheme8
	case 2:
		return barcode.ColorScheme16
	case 3:
		return barcode.ColorScheme24
	case 4:
		return barcode.ColorScheme32
	}
	return barcode.ColorScheme{Model: colorModelOf(s.FG.Model), Foreground: s.FG.Color(), Background: s.BG.Color()}
}

type EncSpec struct {
	Fam     string      `json:"fam"` // qr datamatrix aztec pdf417 code128 code128nc code39 code93 codabar ean 2of5 itf
	Content BStr        `json:"content"`
	A       int         `json:"a,omitempty"`  // qr level | pdf417 security level | aztec ecc percent
	B       int         `json:"b,omitempty"`  // qr mode | aztec layers
	F1      bool        `json:"f1,omitempty"` // code39/93 includeChecksum
	F2      bool        `json:"f2,omitempty"` // code39/93 fullASCII
	Scheme  *SchemeSpec `json:"scheme,omitempty"`
}

var allFamilies = []string{"qr", "datamatrix", "aztec", "pdf417", "code128", "code128nc", "code39", "code93", "codabar", "ean", "2of5", "itf"}

func is2D(fam string) bool {
	return fam == "qr" || fam == "datamatrix" || fam == "aztec" || fam == "pdf417"
}

// encodeSpec performs the call. The content is copied first, so that the caller's buffer in
// the spec is never handed to the library.
func encodeSpec(s EncSpec) (bc barcode.Barcode, err error, pv any) {
	content := string(s.Content)
	pv = try(func() {
		var ics barcode.BarcodeIntCS
		if s.Scheme == nil {
			switch s.Fam {
			case "qr":
				bc, err = qr.Encode(content, qr.ErrorCorrectionLevel(s.A), qr.Encoding(s.B))
			case "datamatrix":
				bc, err = datamatrix.Encode(content)
			case "aztec":
				bc, err = aztec.Encode([]byte(content), s.A, s.B)
			case "pdf417":
				bc, err = pdf417.Encode(content, byte(s.A))
			case "code128":
				ics, err = code128.Encode(content)
			case "code128nc":
				bc, err = code128.EncodeWithoutChecksum(content)
			case "code39":
				ics, err = code39.Encode(content, s.F1, s.F2)
			case "code93":
				bc, err = code93.Encode(content, s.F1, s.F2)
			case "codabar":
				bc, err = codabar.Encode(content)
			case "ean":
				ics, err = ean.Encode(content)
			case "2of5":
				bc, err = twooffive.Encode(content, false)
			case "itf":
				bc, err = twooffive.Encode(content, true)
			default:
				panic("unknown family " + s.Fam)
			}
		} else {
			cs := s.Scheme.Scheme()
			switch s.Fam {
			case "qr":
				bc, err = qr.EncodeWithColor(content, qr.ErrorCorrectionLevel(s.A), qr.Encoding(s.B), cs)
			case "datamatrix":
				bc, err = datamatrix.EncodeWithColor(content, cs)
			case "aztec":
				bc, err = aztec.EncodeWithColor([]byte(content), s.A, s.B, cs)
			case "pdf417":
				bc, err = pdf417.EncodeWithColor(content, byte(s.A), cs)
			case "code128":
				ics, err = code128.EncodeWithColor(content, cs)
			case "code128nc":
				bc, err = code128.EncodeWithoutChecksumWithColor(content, cs)
			case "code39":
				ics, err = code39.EncodeWithColor(content, s.F1, s.F2, cs)
			case "code93":
				bc, err = code93.EncodeWithColor(content, s.F1, s.F2, cs)
			case "codabar":
				bc, err = codabar.EncodeWithColor(content, cs)
			case "ean":
				ics, err = ean.EncodeWithColor(content, cs)
			case "2of5":
				bc, err = twooffive.EncodeWithColor(content, false, cs)
			case "itf":
				bc, err = twooffive.EncodeWithColor(content, true, cs)
			default:
				panic("unknown family " + s.Fam)
			}
		}
		if ics != nil {
			bc = ics
		}
	})
	return
}

func genColorSpec(t *rapid.T, model string, label string) ColorSpec {
	c := ColorSpec{Model: model}
	for i := range c.V {
		if model == "gray16" {
			c.V[i] = uint16(rapid.IntRange(0, 65535).Draw(t, label))
		} else {
			c.V[i] = uint16(rapid.IntRange(0, 255).Draw(t, label))
		}
	}
	if model == "rgba" { // keep alpha-premultiplied values valid: components <= alpha
		for i := 0; i < 3; i++ {
			if c.V[i] > c.V[3] {
				c.V[i] = c.V[3]
			}
		}
	}
	if model == "gray" || model == "gray16" {
		c.V[1], c.V[2], c.V[3] = 0, 0, 0
	}
	return c
}

// genScheme draws a colour scheme with distinct foreground and background.
func genScheme(t *rapid.T) *SchemeSpec {
	if rapid.IntRange(0, 5).Draw(t, "predef") == 0 {
		return &SchemeSpec{Predefined: rapid.IntRange(1, 4).Draw(t, "which")}
	}
	model := rapid.SampledFrom([]string{"gray", "gray16", "rgba", "nrgba", "cmyk"}).Draw(t, "model")
	s := &SchemeSpec{FG: genColorSpec(t, model, "fg"), BG: genColorSpec(t, model, "bg")}
	if s.FG == s.BG {
		s.BG.V[0] ^= 1
		if model == "rgba" && s.BG.V[0] > s.BG.V[3] {
			s.BG.V[3] = s.BG.V[0]
		}
	}
	return s
}

// genEncSpec draws a call that is (mostly) valid for its family. size: 0 small symbols only,
// 1 small and medium, 2 any.
func genEncSpec(t *rapid.T, size int) EncSpec {
	fam := rapid.SampledFrom(allFamilies).Draw(t, "fam")
	return genEncSpecFam(t, fam, size)
}

func genEncSpecFam(t *rapid.T, fam string, size int) EncSpec {
	s := EncSpec{Fam: fam}
	maxLen := []int{12, 120, 1500}[size]
	switch fam {
	case "qr":
		if size == 2 {
			q := genQRCase(t)
			s.Content, s.A, s.B = q.Content, q.Level, q.Mode
			break
		}
		s.A = rapid.IntRange(0, 3).Draw(t, "level")
		s.B = rapid.IntRange(0, 3).Draw(t, "mode")
		class := s.B
		if class == 0 {
			class = rapid.IntRange(1, 3).Draw(t, "class")
		}
		n := rapid.IntRange(0, maxLen).Draw(t, "n")
		b := make([]byte, n)
		for i := range b {
			switch class {
			case 1:
				b[i] = byte('0' + rapid.IntRange(0, 9).Draw(t, "d"))
			case 2:
				b[i] = qrAlnumSet[rapid.IntRange(0, 44).Draw(t, "a")]
			default:
				b[i] = rapid.Byte().Draw(t, "b")
			}
		}
		s.Content = BStr(b)
	case "datamatrix":
		if size == 2 {
			s.Content = genDMCase(t).Content
			break
		}
		s.Content = BStr(genDMContent(t, rapid.IntRange(0, maxLen).Draw(t, "cw")))
	case "aztec":
		if size == 2 {
			a := genAztecCase(t)
			s.Content, s.A, s.B = a.Payload, a.ECC, a.Layers
			break
		}
		p := genAztecPayload(t, 0)
		if len(p) > maxLen {
			p = p[:maxLen]
		}
		if len(p) == 0 {
			p = []byte("A")
		}
		s.Content = BStr(p)
		s.A = rapid.SampledFrom([]int{0, 10, 23, 33, 50, 100}).Draw(t, "ecc")
		s.B = rapid.SampledFrom([]int{0, 0, 0, -4, -3, 2, 3, 5}).Draw(t, "layers")
	case "pdf417":
		p := genPDFContent(t)
		if size < 2 && len(p) > maxLen {
			p = p[:maxLen]
		}
		s.Content = BStr(p)
		s.A = rapid.IntRange(0, []int{2, 5, 8}[size]).Draw(t, "level")
	case "code128", "code128nc":
		txt := genCode128Text(t)
		if size == 0 {
			r := []rune(txt)
			if len(r) > 10 {
				txt = string(r[:10])
			}
		}
		s.Content = BStr(txt)
	case "code39", "code93":
		c := genC39(t)
		s.Content, s.F1, s.F2 = c.Content, c.Checksum, c.FullASCII
		if size == 0 && len(s.Content) > 8 {
			s.Content = s.Content[:8]
		}
	case "codabar":
		c := genC08(t)
		for c.Kind != "codabar" {
			c = genC08(t)
		}
		s.Content = c.Content
		if size == 0 && len(s.Content) > 8 {
			s.Content = append(append(BStr{}, s.Content[:7]...), 'B')
		}
	case "ean":
		s.Content = BStr(genEAN(t))
	case "2of5", "itf":
		n := rapid.IntRange(1, []int{6, 30, 60}[size]).Draw(t, "n")
		if fam == "itf" {
			n += n % 2
		}
		b := make([]byte, n)
		for i := range b {
			b[i] = byte('0' + rapid.IntRange(0, 9).Draw(t, "d"))
		}
		s.Content = BStr(b)
	}
	return s
}

func (s EncSpec) label() string {
	c := "plain"
	if s.Scheme != nil {
		c = "colour"
	}
	return fmt.Sprintf("%s %s", s.Fam, c)
}
