package props

// Generators for enc.EncSpec (one call of one exported encoder) and aliases of the shared types.

import (
	"github.com/boombuler/barcode"
	"pgregory.net/rapid"
	"verif/enc"
)

type (
	ColorSpec  = enc.ColorSpec
	SchemeSpec = enc.SchemeSpec
	EncSpec    = enc.EncSpec
)

var allFamilies = enc.AllFamilies

func is2D(fam string) bool { return enc.Is2D(fam) }

func encodeSpec(s EncSpec) (barcode.Barcode, error, any) { return enc.Encode(s) }

func genColorSpec(t *rapid.T, model string, label string) ColorSpec {
	c := ColorSpec{Model: model}
	for i := range c.V {
		if model == "gray16" {
			c.V[i] = uint16(rapid.IntRange(0, 65535).Draw(t, label))
		} else {
			c.V[i] = uint16(rapid.IntRange(0, 255).Draw(t, label))
		}
	}
	if model == "rgba" { // keep alpha-premultiplied values valid: components <= alpha
		for i := 0; i < 3; i++ {
			if c.V[i] > c.V[3] {
				c.V[i] = c.V[3]
			}
		}
	}
	if model == "gray" || model == "gray16" {
		c.V[1], c.V[2], c.V[3] = 0, 0, 0
	}
	return c
}

// genScheme draws a colour scheme with distinct foreground and background.
func genScheme(t *rapid.T) *SchemeSpec {
	if rapid.IntRange(0, 5).Draw(t, "predef") == 0 {
		return &SchemeSpec{Predefined: rapid.IntRange(1, 4).Draw(t, "which")}
	}
	models := []string{"gray", "gray16", "rgba", "nrgba", "cmyk"}
	if rapid.IntRange(0, 4).Draw(t, "lookalike") == 0 {
		// black on white (sometimes red on white) written in different colour types: schemes that look the same
		// through RGBA() and are different values; also colour types that are not image/color's own (a caller-defined
		// type, *image.Uniform as image.Black is)
		blacks := []ColorSpec{{Model: "gray"}, {Model: "gray16"}, {Model: "rgba", V: [4]uint16{0, 0, 0, 255}}, {Model: "nrgba", V: [4]uint16{0, 0, 0, 255}},
			{Model: "cmyk", V: [4]uint16{0, 0, 0, 255}}, {Model: "cmyk", V: [4]uint16{7, 9, 200, 255}}, {Model: "custom", V: [4]uint16{0, 0, 0, 65535}}, {Model: "uniform", V: [4]uint16{0, 0, 0, 255}},
			{Model: "rgba", V: [4]uint16{255, 0, 0, 255}}, {Model: "nrgba", V: [4]uint16{255, 0, 0, 255}}, {Model: "custom", V: [4]uint16{65535, 0, 0, 65535}}}
		whites := []ColorSpec{{Model: "gray", V: [4]uint16{255}}, {Model: "gray16", V: [4]uint16{65535}}, {Model: "rgba", V: [4]uint16{255, 255, 255, 255}}, {Model: "nrgba", V: [4]uint16{255, 255, 255, 255}},
			{Model: "cmyk"}, {Model: "custom", V: [4]uint16{65535, 65535, 65535, 65535}}, {Model: "uniform", V: [4]uint16{255, 255, 255, 255}}, {Model: "nrgba", V: [4]uint16{9, 9, 9, 0}}, {Model: "rgba"}, {Model: "rgba", V: [4]uint16{255, 255, 255, 0}}}
		return &SchemeSpec{Model: rapid.SampledFrom(models).Draw(t, "lmodel"), FG: rapid.SampledFrom(blacks).Draw(t, "lfg"), BG: rapid.SampledFrom(whites).Draw(t, "lbg")}
	}
	model := rapid.SampledFrom(models).Draw(t, "model")
	s := &SchemeSpec{FG: genColorSpec(t, model, "fg"), BG: genColorSpec(t, model, "bg")}
	if rapid.IntRange(0, 3).Draw(t, "mixedtypes") == 0 {
		// arbitrary fore/background: colours whose concrete type differs from what the scheme's model produces
		s.Model = model
		s.FG = genColorSpec(t, rapid.SampledFrom(models).Draw(t, "fgmodel"), "fg2")
		s.BG = genColorSpec(t, rapid.SampledFrom(models).Draw(t, "bgmodel"), "bg2")
	}
	if s.FG == s.BG {
		s.BG.V[0] ^= 1
		if model == "rgba" && s.BG.V[0] > s.BG.V[3] {
			s.BG.V[3] = s.BG.V[0]
		}
	}
	return s
}

// genEncSpec draws a call that is (mostly) valid for its family. size: 0 small symbols only,
// 1 small and medium, 2 any.
func genEncSpec(t *rapid.T, size int) EncSpec {
	fam := rapid.SampledFrom(allFamilies).Draw(t, "fam")
	return genEncSpecFam(t, fam, size)
}

func genEncSpecFam(t *rapid.T, fam string, size int) EncSpec {
	s := EncSpec{Fam: fam}
	maxLen := []int{12, 120, 1500}[size]
	switch fam {
	case "qr":
		if size == 2 {
			q := genQRCase(t)
			s.Content, s.A, s.B = q.Content, q.Level, q.Mode
			break
		}
		s.A = rapid.IntRange(0, 3).Draw(t, "level")
		s.B = rapid.IntRange(0, 3).Draw(t, "mode")
		class := s.B
		if class == 0 {
			class = rapid.IntRange(1, 3).Draw(t, "class")
		}
		n := rapid.IntRange(0, maxLen).Draw(t, "n")
		b := make([]byte, n)
		for i := range b {
			switch class {
			case 1:
				b[i] = byte('0' + rapid.IntRange(0, 9).Draw(t, "d"))
			case 2:
				b[i] = qrAlnumSet[rapid.IntRange(0, 44).Draw(t, "a")]
			default:
				b[i] = rapid.Byte().Draw(t, "b")
			}
		}
		s.Content = BStr(b)
	case "datamatrix":
		if size == 2 {
			s.Content = genDMCase(t).Content
			break
		}
		s.Content = BStr(genDMContent(t, rapid.IntRange(0, maxLen).Draw(t, "cw")))
	case "aztec":
		if size == 2 {
			a := genAztecCase(t)
			s.Content, s.A, s.B = a.Payload, a.ECC, a.Layers
			break
		}
		p := genAztecPayload(t, 0)
		if len(p) > maxLen {
			p = p[:maxLen]
		}
		if len(p) == 0 {
			p = []byte("A")
		}
		s.Content = BStr(p)
		s.A = rapid.SampledFrom([]int{0, 10, 23, 33, 50, 100}).Draw(t, "ecc")
		s.B = rapid.SampledFrom([]int{0, 0, 0, -4, -3, 2, 3, 5}).Draw(t, "layers")
	case "pdf417":
		p := genPDFContent(t)
		if size < 2 && len(p) > maxLen {
			p = p[:maxLen]
		}
		s.Content = BStr(p)
		s.A = rapid.IntRange(0, []int{2, 5, 8}[size]).Draw(t, "level")
	case "code128", "code128nc":
		txt := genCode128Text(t)
		if size == 0 {
			r := []rune(txt)
			if len(r) > 10 {
				txt = string(r[:10])
			}
		}
		s.Content = BStr(txt)
	case "code39", "code93":
		c := genC39(t)
		s.Content, s.F1, s.F2 = c.Content, c.Checksum, c.FullASCII
		if size == 0 && len(s.Content) > 8 {
			s.Content = s.Content[:8]
		}
	case "codabar":
		c := genC08(t)
		for c.Kind != "codabar" {
			c = genC08(t)
		}
		s.Content = c.Content
		if size == 0 && len(s.Content) > 8 {
			s.Content = append(append(BStr{}, s.Content[:7]...), 'B')
		}
	case "ean":
		s.Content = BStr(genEAN(t))
	case "2of5", "itf":
		n := rapid.IntRange(1, []int{6, 30, 60}[size]).Draw(t, "n")
		if fam == "itf" {
			n += n % 2
		}
		b := make([]byte, n)
		for i := range b {
			b[i] = byte('0' + rapid.IntRange(0, 9).Draw(t, "d"))
		}
		s.Content = BStr(b)
	}
	return s
}
