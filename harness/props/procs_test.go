package props

// The result must not depend on how many CPUs the scheduler may use: an encoder that splits its work over
// GOMAXPROCS workers (mask candidates, Reed-Solomon blocks, rows) and partitions it with integer division is right
// for 1, 2, 4, 8, 16 and wrong for 3, 5, 6, 7. A few multi-block symbols of every 2D symbology are encoded and read
// back under every GOMAXPROCS value from 1 to 12 (the setting is process-wide: the values are tried one after the
// other, the cases of one value in parallel).

import (
	"fmt"
	"runtime"
	"testing"

	"verif/ref"
)

func runProcs(t *testing.T, prop string, n int, check func(tb TB, i int)) {
	st := NewStats(prop, "procs")
	defer st.Flush()
	ct := &collectTB{}
	old := runtime.GOMAXPROCS(0)
	defer runtime.GOMAXPROCS(old)
	for _, procs := range []int{1, 2, 3, 4, 5, 6, 7, 8, 9, 10, 11, 12, 16, 17, 24, 32, 48, 64, 100} {
		if ct.Failed() {
			break
		}
		runtime.GOMAXPROCS(procs)
		parallelFor(n, 8, func(i int) {
			if ct.Failed() {
				return
			}
			ct.guard(func() {
				check(ct, i)
				st.Eval()
			})
		})
		st.NonTrivialN(int64(n))
		st.Class(fmt.Sprintf("GOMAXPROCS %d", procs))
	}
	st.Set("exhaustive_domain", fmt.Sprintf("%d multi-block symbols x GOMAXPROCS 1..12, 16, 17, 24, 32, 48, 64, 100", n))
	if ct.Failed() {
		t.Fatalf("%s (GOMAXPROCS was %d)", ct.first, runtime.GOMAXPROCS(0))
	}
}

func TestC01Procs(t *testing.T) {
	var cases []QRCase
	for i, vl := range [][2]int{{1, 0}, {3, 2}, {5, 2}, {5, 3}, {7, 1}, {9, 3}, {10, 0}, {13, 2}, {15, 3}, {20, 1}, {27, 3}, {40, 0}} {
		n := qrCapacity(vl[0], vl[1], qrIndicator[3])
		c := fillPattern(3, int64(500+i), n-i%2)
		c[0] = 0xC3
		cases = append(cases, QRCase{Content: BStr(c), Level: vl[1], Mode: 3})
	}
	cases = append(cases, QRCase{Content: BStr("HELLO WORLD"), Level: 1, Mode: 0}, QRCase{Content: BStr("0123456789012345678901234567890123456789"), Level: 3, Mode: 1})
	runProcs(t, "C01", len(cases), func(tb TB, i int) { checkQRRoundTrip(tb, cases[i]) })
}

func TestC02Procs(t *testing.T) {
	var cases []DMCase
	for si, sz := range ref.DMSizes {
		if si%3 == 0 || sz.Blocks > 1 {
			cases = append(cases, DMCase{Content: BStr(dmFit([]byte{byte('a' + si%20)}, sz.Data-si%2, 'Q'))})
		}
	}
	runProcs(t, "C02", len(cases), func(tb TB, i int) { checkDMRoundTrip(tb, cases[i]) })
}

func TestC03Procs(t *testing.T) {
	var cases []AztecCase
	for i, l := range []int{-1, -4, 1, 3, 4, 8, 9, 12, 22, 23, 32, 0, 0} {
		cases = append(cases, AztecCase{Payload: BStr(fillPattern(2+i%2, int64(700+i), 10+i*17)), ECC: []int{23, 33, 10}[i%3], Layers: l})
	}
	runProcs(t, "C03", len(cases), func(tb TB, i int) { checkAztecRoundTrip(tb, nil, cases[i]) })
}

func TestC04Procs(t *testing.T) {
	var cases []PDFCase
	for i, n := range []int{1, 8, 30, 90, 200, 400, 800, 1300, 1700} {
		cases = append(cases, PDFCase{Content: BStr(fillPDF(i%4, int64(900+i), n)), Level: i % 9})
	}
	cases = append(cases, PDFCase{Content: BStr("12345678901234567890123456789012345678901234567890"), Level: 5})
	runProcs(t, "C04", len(cases), func(tb TB, i int) { checkPDFRoundTrip(tb, cases[i]) })
}
