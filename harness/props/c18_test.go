package props

// C18: utils.BitList behaves exactly like a growable []bool (model-based, stateful).

import (
	"fmt"
	"testing"
	"time"

	"github.com/boombuler/barcode/utils"
	"pgregory.net/rapid"
)

type BLOp struct {
	Op  string `json:"op"`            // addbit, addbits, addbyte, set, get, bytes, iter, bulk
	V   int64  `json:"v,omitempty"`   // value / pattern seed / raw index
	N   int    `json:"n,omitempty"`   // count
	Bit bool   `json:"bit,omitempty"` // value for set/addbit
}

type BLCase struct {
	New int    `json:"new"` // -1: zero value (new(BitList)), otherwise NewBitList(New)
	Ops []BLOp `json:"ops"`
}

var blBoundaries = []int{0, 1, 7, 8, 9, 31, 32, 33, 63, 64, 65, 4064, 4095, 4096, 4097, 8191, 8192, 8193, 16383, 16384, 16385,
	32767, 32768, 32769, 65535, 65536, 65537, 98303, 98304, 98305}

// patBit is the i-th bit of the deterministic pattern selected by seed (no RNG at run time).
func patBit(seed int64, i int) bool {
	if seed >= 1<<21 { // structured patterns (kind in the bits above 21, parameter below)
		kind, param := int(seed>>21), int(seed&(1<<21-1))
		switch kind {
		case 1:
			return false // all zero
		case 2:
			return i < param%96 // ones, then zeros to the end
		case 3:
			return i == param%200 // a single one
		case 4, 5: // whole 32-bit groups are zero (kind 4: the others random, kind 5: the others all ones)
			w := uint64(param)*0x9E3779B97F4A7C15 + uint64(i/32)*0xD6E8FEB86659FD93
			w ^= w >> 32
			if w%3 != 0 {
				return false
			}
			if kind == 5 {
				return true
			}
			return patBit(int64(param&^3), i)
		default:
			return i >= param%96 // zeros, then ones
		}
	}
	x := uint64(seed)*0x9E3779B97F4A7C15 + uint64(i)*0xBF58476D1CE4E5B9
	x ^= x >> 31
	x *= 0x94D049BB133111EB
	x ^= x >> 29
	switch seed % 4 {
	case 0:
		return x&1 == 1
	case 1:
		return true
	case 2:
		return i%2 == 0
	}
	return x&3 == 0
}

func genBLCase(t *rapid.T) BLCase {
	var c BLCase
	switch rapid.IntRange(0, 9).Draw(t, "newkind") {
	case 0:
		c.New = -1
	case 1, 2, 3:
		c.New = rapid.SampledFrom(blBoundaries).Draw(t, "newb")
	case 4:
		// just below a growth boundary so that a few appends cross it
		b := rapid.SampledFrom([]int{4096, 8192, 16384, 32768, 65536, 98304}).Draw(t, "gb")
		c.New = b - rapid.IntRange(0, 40).Draw(t, "below")
	default:
		c.New = rapid.IntRange(0, 200).Draw(t, "new")
	}
	opGen := rapid.Custom(func(t *rapid.T) BLOp {
		switch rapid.IntRange(0, 11).Draw(t, "k") {
		case 0, 1:
			return BLOp{Op: "addbit", Bit: rapid.Bool().Draw(t, "b")}
		case 2, 3:
			n := rapid.SampledFrom([]int{0, 1, 2, 3, 4, 5, 7, 8, 9, 10, 11, 12, 13, 16, 17, 18, 31, 32, 33, 63, 64, 65, 70, 96, 128, 200, 255}).Draw(t, "n")
			var v int64
			switch rapid.IntRange(0, 3).Draw(t, "vk") {
			case 0:
				v = rapid.Int64().Draw(t, "v")
			case 1:
				v = -1 - int64(rapid.IntRange(0, 1000).Draw(t, "neg"))
			default:
				v = int64(rapid.IntRange(0, 1<<20).Draw(t, "small"))
			}
			return BLOp{Op: "addbits", V: v, N: n}
		case 4:
			return BLOp{Op: "addbyte", V: int64(rapid.IntRange(0, 255).Draw(t, "byte"))}
		case 5, 6:
			return BLOp{Op: "set", V: int64(rapid.IntRange(0, 1<<30).Draw(t, "idx")), Bit: rapid.Bool().Draw(t, "b")}
		case 7:
			return BLOp{Op: "get", V: int64(rapid.IntRange(0, 1<<30).Draw(t, "idx"))}
		case 8:
			return BLOp{Op: "bytes"}
		case 9:
			switch rapid.IntRange(0, 4).Draw(t, "two") {
			case 0:
				return BLOp{Op: "iter2"}
			case 1:
				return BLOp{Op: "iterhold"}
			}
			return BLOp{Op: "iter"}
		case 10:
			return BLOp{Op: "bulk", V: int64(rapid.IntRange(0, 1<<20).Draw(t, "pat")), N: rapid.IntRange(0, 70).Draw(t, "n")}
		default:
			// large variadic append: crosses the 128-word and 1024-word growth steps
			n := rapid.SampledFrom([]int{100, 1000, 4000, 4096, 4200, 9000, 33000, 40000}).Draw(t, "bign")
			pat := int64(rapid.IntRange(0, 1<<20).Draw(t, "pat"))
			if rapid.Bool().Draw(t, "structured") {
				// zero runs / zero words / whole multiples of the word size (bulk code paths that treat zero words specially)
				pat = int64(rapid.IntRange(1, 6).Draw(t, "patkind"))<<21 | int64(rapid.IntRange(0, 1<<21-1).Draw(t, "patparam"))
				if rapid.Bool().Draw(t, "wordmultiple") {
					n = 32*rapid.IntRange(1, 140).Draw(t, "nwords") + rapid.SampledFrom([]int{0, 0, 0, 1, 31}).Draw(t, "tail")
				}
			}
			return BLOp{Op: "bulk", V: pat, N: n}
		}
	})
	c.Ops = rapid.SliceOfN(opGen, 0, 25).Draw(t, "ops")
	return c
}

func packModel(m []bool) []byte {
	out := make([]byte, (len(m)+7)/8)
	for i, b := range m {
		if b {
			out[i/8] |= 0x80 >> uint(i%8)
		}
	}
	return out
}

// checkBitList executes the case against the real BitList and the []bool model.
// It returns a short classification used for the statistics.
func checkBitList(t TB, c BLCase) (words int, crossed bool, setAfterAppend bool) {
	noteCase("C18", "bitlist-model", c)
	fail := func(step int, format string, args ...any) {
		failf(t, "C18", "bitlist-model", c, "step %d: %s", step, fmt.Sprintf(format, args...))
	}
	var bl *utils.BitList
	var model []bool
	if c.New < 0 {
		bl = new(utils.BitList)
	} else {
		if pv := try(func() { bl = utils.NewBitList(c.New) }); pv != nil {
			fail(-1, "NewBitList(%d): %v", c.New, pv)
		}
		model = make([]bool, c.New)
	}
	startWords := (len(model) + 31) / 32
	compare := func(step int, full bool) {
		if bl.Len() != len(model) {
			fail(step, "Len()=%d, model %d", bl.Len(), len(model))
		}
		want := packModel(model)
		var got []byte
		if pv := try(func() { got = bl.GetBytes() }); pv != nil {
			fail(step, "GetBytes: %v", pv)
		}
		if len(got) != len(want) {
			fail(step, "GetBytes length %d, model %d", len(got), len(want))
		}
		for i := range want {
			if got[i] != want[i] {
				fail(step, "GetBytes[%d]=%#02x, model %#02x (len %d bits)", i, got[i], want[i], len(model))
			}
		}
		if full {
			bad := -1
			if pv := try(func() {
				for i, b := range model {
					if bl.GetBit(i) != b {
						bad = i
						return
					}
				}
			}); pv != nil {
				fail(step, "GetBit sweep: %v", pv)
			}
			if bad >= 0 {
				fail(step, "GetBit(%d)=%v, model %v", bad, !model[bad], model[bad])
			}
		}
	}
	compare(-1, true)
	appended := false
	var held []<-chan byte
	for step, op := range c.Ops {
		var getGot, getWant bool
		var iterGot, iter2Got []byte
		bulkTouched := 0
		pv := try(func() {
			switch op.Op {
			case "addbit":
				bl.AddBit(op.Bit)
			case "addbits":
				bl.AddBits(int(op.V), byte(op.N))
			case "addbyte":
				bl.AddByte(byte(op.V))
			case "bulk":
				// the argument is a sub-slice of a larger buffer of the caller's (all true behind it)
				whole := make([]bool, op.N+40)
				for i := range whole {
					whole[i] = i >= op.N || patBit(op.V, i)
				}
				bl.AddBit(whole[:op.N]...)
				for i := op.N; i < len(whole); i++ {
					if !whole[i] {
						bulkTouched = i - op.N + 1
					}
				}
				for i := 0; i < op.N; i++ {
					if whole[i] != patBit(op.V, i) {
						bulkTouched = -1 - i
					}
				}
			case "set":
				if len(model) > 0 {
					bl.SetBit(blIndex(op, len(model)), op.Bit)
				}
			case "get":
				if len(model) > 0 {
					i := int(op.V % int64(len(model)))
					getGot, getWant = bl.GetBit(i), model[i]
				}
			case "iter":
				for b := range bl.IterateBytes() {
					iterGot = append(iterGot, b)
				}
			case "iterhold": // a view read to exactly its length (as a consumer that knows the length does), kept until the end
				// (an empty list is skipped: its producer goroutine reads the length only after IterateBytes has returned,
				// so without a first byte nothing orders that read before the caller's next append - the list must not be
				// modified between requesting a view and receiving its first byte; see DESIGN.md section 11)
				if len(model) > 0 {
					ch := bl.IterateBytes()
					for i := 0; i < (len(model)+7)/8; i++ {
						b, ok := <-ch
						if !ok {
							break
						}
						iterGot = append(iterGot, b)
					}
					held = append(held, ch)
				}
			case "iter2": // two channel views of the unchanged list, the second one opened while the first is half read
				first := bl.IterateBytes()
				half := (len(model) + 7) / 8 / 2
				for i := 0; i < half; i++ {
					b, ok := <-first
					if !ok {
						break
					}
					iterGot = append(iterGot, b)
				}
				for b := range bl.IterateBytes() {
					iter2Got = append(iter2Got, b)
				}
				for b := range first {
					iterGot = append(iterGot, b)
				}
			}
		})
		if pv != nil {
			fail(step, "%s: %v", op.Op, pv)
		}
		switch op.Op {
		case "addbit":
			model = append(model, op.Bit)
			appended = true
		case "addbits":
			for i := op.N - 1; i >= 0; i-- {
				// bit i of the two's-complement integer; beyond bit 63 that is the sign (counts up to 255 are accepted)
				model = append(model, (op.V>>uint(min(i, 63)))&1 == 1)
			}
			appended = appended || op.N > 0
		case "addbyte":
			for i := 7; i >= 0; i-- {
				model = append(model, (byte(op.V)>>uint(i))&1 == 1)
			}
			appended = true
		case "bulk":
			if bulkTouched > 0 {
				fail(step, "AddBit(buf[:%d]...) wrote into the caller's buffer behind the argument (offset +%d)", op.N, bulkTouched-1)
			}
			if bulkTouched < 0 {
				fail(step, "AddBit(buf[:%d]...) changed its argument at index %d", op.N, -1-bulkTouched)
			}
			bits := make([]bool, op.N)
			for i := range bits {
				bits[i] = patBit(op.V, i)
			}
			model = append(model, bits...)
			appended = appended || op.N > 0
		case "set":
			if len(model) == 0 {
				continue
			}
			model[blIndex(op, len(model))] = op.Bit
			if appended {
				setAfterAppend = true
			}
		case "get":
			if len(model) == 0 {
				continue
			}
			if getGot != getWant {
				fail(step, "GetBit(%d)=%v, model %v", int(op.V%int64(len(model))), getGot, getWant)
			}
		case "bytes":
			// compared below
		case "iterhold":
			if want := packModel(model); len(model) > 0 && string(iterGot) != string(want) {
				fail(step, "a channel view read to exactly its length yielded % x, model % x", trunc(iterGot), trunc(want))
			}
		case "iter2":
			want := packModel(model)
			if string(iterGot) != string(want) {
				fail(step, "a channel view that was half read when a second view was opened yielded % x, model % x", trunc(iterGot), trunc(want))
			}
			if string(iter2Got) != string(want) {
				fail(step, "the second of two simultaneous channel views yielded % x, model % x", trunc(iter2Got), trunc(want))
			}
		case "iter":
			want := packModel(model)
			got := iterGot
			if len(got) != len(want) {
				fail(step, "IterateBytes yielded %d bytes, model %d", len(got), len(want))
			}
			for i := range want {
				if got[i] != want[i] {
					fail(step, "IterateBytes[%d]=%#02x, model %#02x", i, got[i], want[i])
				}
			}
		default:
			t.Fatalf("unknown op %q", op.Op)
		}
		compare(step, len(model) <= 6000)
	}
	compare(len(c.Ops), true)
	// views that were read to their full length earlier: whatever was appended since, they have nothing more to say
	for i, ch := range held {
		if b, ok := <-ch; ok {
			fail(len(c.Ops), "channel view %d had delivered its whole sequence, yet it yields another byte (%#02x) after later appends", i, b)
		}
	}
	// channel view == slice view at the end, always
	want := packModel(model)
	var final []byte
	if pv := try(func() {
		for b := range bl.IterateBytes() {
			final = append(final, b)
		}
	}); pv != nil {
		fail(len(c.Ops), "final IterateBytes: %v", pv)
	}
	if string(final) != string(want) {
		fail(len(c.Ops), "final IterateBytes yielded % x, model % x", trunc(final), trunc(want))
	}
	endWords := (len(model) + 31) / 32
	// a growth step was crossed if the list grew past its initial allocation
	crossed = endWords > startWords && len(model) > 0
	return endWords, crossed, setAfterAppend
}

// blIndex maps the raw drawn index of a set op to a valid index, biased to the last bits.
func blIndex(op BLOp, n int) int {
	if op.V%5 == 0 {
		return n - 1 - int(op.V/5)%min(n, 40)
	}
	return int(op.V % int64(n))
}

func trunc(b []byte) []byte {
	if len(b) > 40 {
		return b[:40]
	}
	return b
}

func init() {
	register("bitlist-model", func(t TB, c BLCase) { checkBitList(t, c) })
}

func c18Account(st *Stats, c BLCase, words int, crossed, setAfter bool) {
	if len(c.Ops) >= 2 && (crossed || setAfter) {
		st.NonTrivial(H(fmt.Sprint(c)))
	}
	switch {
	case words > 3072:
		st.Class("final>3072words")
	case words > 1024:
		st.Class("final>1024words")
	case words > 128:
		st.Class("final>128words")
	case words > 1:
		st.Class("final>1word")
	default:
		st.Class("final<=1word")
	}
	if crossed {
		st.Class("grew-past-initial-allocation")
	}
	if setAfter {
		st.Class("set-after-append")
	}
	if c.New < 0 {
		st.Class("zero-value-start")
	}
}

func TestC18Rapid(t *testing.T) {
	st := NewStats("C18", "rapid")
	runRapid(t, st, func(rt *rapid.T) {
		c := genBLCase(rt)
		words, crossed, setAfter := checkBitList(rt, c)
		c18Account(st, c, words, crossed, setAfter)
		if len(c.Ops) > 0 && len(c.Ops) <= 6 {
			st.Sample(fmt.Sprintf("new=%d", c.New), c)
		}
	})
}

// TestC18Exhaustive enumerates every operation sequence up to the depth bound over a fixed
// alphabet, from several start states (exhaustive over that finite space).
func TestC18Exhaustive(t *testing.T) {
	st := NewStats("C18", "exhaustive")
	defer st.Flush()
	alphabet := []BLOp{
		{Op: "addbit", Bit: true}, {Op: "addbit", Bit: false},
		{Op: "addbits", V: -3, N: 13}, {Op: "addbits", V: 0x5A5A5, N: 33}, {Op: "addbits", V: -6, N: 70},
		{Op: "addbyte", V: 0xA7},
		{Op: "set", V: 0, Bit: true}, {Op: "set", V: 5, Bit: false}, // last bit (V%5==0 rule) / some index
		{Op: "set", V: 31, Bit: true},
		{Op: "iter"}, {Op: "iter2"}, {Op: "iterhold"},
	}
	depth := 4
	if thorough() {
		depth = 5
	}
	starts := []int{-1, 0, 1, 31, 32, 33, 4090}
	total := 1
	for i := 0; i < depth; i++ {
		total *= len(alphabet)
	}
	ct := &collectTB{}
	for _, start := range starts {
		for d := 0; d <= depth; d++ {
			n := 1
			for i := 0; i < d; i++ {
				n *= len(alphabet)
			}
			parallelFor(n, 16, func(idx int) {
				if ct.Failed() {
					return
				}
				c := BLCase{New: start, Ops: make([]BLOp, d)}
				x := idx
				for i := 0; i < d; i++ {
					c.Ops[i] = alphabet[x%len(alphabet)]
					x /= len(alphabet)
				}
				ct.guard(func() {
					words, crossed, setAfter := checkBitList(ct, c)
					st.Eval()
					c18Account(st, c, words, crossed, setAfter)
					if idx == n-1 {
						st.Sample(fmt.Sprintf("exhaustive depth=%d start=%d", d, start), c)
					}
				})
			})
		}
	}
	// one variadic append of 32/64/96/128/4096(+1) bits in every structured pattern from every boundary start
	// length, followed by a single bit, a set and the byte views
	var sweep []BLCase
	for _, start := range append([]int{-1}, blBoundaries...) {
		for _, n := range []int{32, 64, 65, 96, 128, 4096, 4097} {
			for kind := int64(0); kind <= 6; kind++ {
				pat := kind<<21 | 40
				if kind == 0 {
					pat = 1 // all ones
				}
				sweep = append(sweep, BLCase{New: start, Ops: []BLOp{{Op: "bulk", V: pat, N: n}, {Op: "get", V: int64(n - 1)}}},
					BLCase{New: start, Ops: []BLOp{{Op: "bulk", V: pat, N: n}, {Op: "set", V: 0, Bit: true}, {Op: "addbit", Bit: true}, {Op: "iter"}}})
			}
		}
	}
	parallelFor(len(sweep), 16, func(i int) {
		if ct.Failed() {
			return
		}
		ct.guard(func() {
			words, crossed, setAfter := checkBitList(ct, sweep[i])
			st.Eval()
			c18Account(st, sweep[i], words, crossed, setAfter)
			st.Class("variadic append sweep")
		})
	})
	if thorough() {
		// "a new list of length n holds n zero bits ... for every n": one list of more than 2^32 bits (512 MiB of
		// untouched zero pages), spot-checked around the 2^32 boundary (index arithmetic narrower than int)
		ct.guard(func() {
			n := big(32, 4096)
			bl := utils.NewBitList(n)
			if bl.Len() != n {
				failf(ct, "C18", "bitlist-model", BLCase{New: n}, "NewBitList(%d).Len() = %d", n, bl.Len())
			}
			for _, idx := range []int{big(32, 5), big(32, -1), big(32, 0), big(31, 7), n - 1} {
				bl.SetBit(idx, true)
				for _, probe := range []int{idx, idx - big(32, 0), idx - big(31, 0), idx &^ big(32, 0), 5, 0, 4095} {
					if probe < 0 || probe >= n {
						continue
					}
					if got := bl.GetBit(probe); got != (probe == idx) {
						failf(ct, "C18", "bitlist-model", BLCase{New: n}, "after SetBit(%d, true) on a list of %d zero bits GetBit(%d) = %v", idx, n, probe, got)
					}
				}
				bl.SetBit(idx, false)
			}
			st.Eval()
			st.Class("list of more than 2^32 bits (spot-checked)")
		})
	}
	// every length 0..8300 and around every power of two up to 2^17: both byte views of a fresh zero list and of a list
	// built by appending a pattern (a fast path or buffer that is right for all lengths but a handful)
	var lens []int
	for n := 0; n <= 8300; n++ {
		lens = append(lens, n)
	}
	for p := 14; p <= 17; p++ {
		for d := -9; d <= 9; d++ {
			lens = append(lens, 1<<uint(p)+d)
		}
	}
	// ... and lists of 1 to 4 MiB (a slice view assembled in parallel chunks, a size-gated fast path)
	lens = append(lens, 1<<20-1, 1<<20, 1<<20+8, 1<<20+33, 1<<23-8, 1<<23, 1<<23+8, 1<<23+32, 1<<23+40, 1<<23+72, 1<<23+104, 1<<23+1000, 1<<24+40, 3<<22+104, 5<<21+72, 1<<25+72)
	parallelFor(16, 16, func(w int) {
		if ct.Failed() {
			return
		}
		ok := withWatchdogFor(120*time.Second, func() {
			ct.guard(func() {
				for k := w; k < len(lens) && !ct.Failed(); k += 16 {
					n := lens[k]
					fresh := utils.NewBitList(n)
					grown := new(utils.BitList)
					model := make([]bool, n)
					for i := 0; i < n; i++ {
						model[i] = (i*7+n)%5 < 2
						grown.AddBit(model[i])
					}
					for which, bl := range []*utils.BitList{fresh, grown} {
						want := packModel(model)
						if which == 0 {
							want = make([]byte, (n+7)/8)
						}
						var got []byte
						for b := range bl.IterateBytes() {
							got = append(got, b)
						}
						if bl.Len() != n || string(got) != string(want) || string(bl.GetBytes()) != string(want) {
							failf(ct, "C18", "bitlist-model", BLCase{New: []int{n, -1}[which], Ops: []BLOp{{Op: "bulk", V: 2, N: n * which}, {Op: "iter"}}}, "list of %d bits (%s): Len()=%d, channel view % x, slice view % x, model % x", n, []string{"NewBitList(n)", "n appended bits"}[which], bl.Len(), trunc(got), trunc(bl.GetBytes()), trunc(want))
						}
					}
					st.Eval()
				}
			})
		})
		if !ok {
			failf(ct, "C18", "bitlist-model", BLCase{New: lens[w]}, "the byte views of the lists of length %d, %d, ... did not complete within 120 s (they take microseconds)", lens[w], lens[w]+16)
		}
	})
	st.Class("byte views of every length 0..8300, around 2^14..2^17, and of 16 lengths between 2^20 and 2^25+72")
	// a slow consumer: the channel view delivers the whole sequence at whatever pace it is read
	ct.guard(func() {
		pause := 2500 * time.Millisecond
		if thorough() {
			pause = 11 * time.Second
		}
		bl := utils.NewBitList(0)
		var model []bool
		for i := 0; i < 333; i++ {
			bl.AddBit(i%3 == 0)
			model = append(model, i%3 == 0)
		}
		want := packModel(model)
		var got []byte
		ch := bl.IterateBytes()
		for i := 0; i < 4; i++ {
			got = append(got, <-ch)
		}
		time.Sleep(pause)
		for b := range ch {
			got = append(got, b)
			if len(got) == 20 {
				time.Sleep(pause / 5)
			}
		}
		st.Eval()
		st.Class("slow consumer of a channel view")
		if string(got) != string(want) {
			failf(ct, "C18", "bitlist-model", BLCase{New: 0, Ops: []BLOp{{Op: "bulk", V: 2, N: 333}, {Op: "iter"}}}, "a consumer that paused %v after four bytes received % x, model % x", pause, trunc(got), trunc(want))
		}
	})
	st.Set("exhaustive", true)
	st.Set("exhaustive_domain", fmt.Sprintf("all sequences of length 0..%d over %d ops from %d start states; plus one variadic append of 32..4097 bits x 7 patterns x %d start lengths", depth, len(alphabet), len(starts), len(blBoundaries)+1))
	if ct.Failed() {
		t.Fatalf("%s", ct.first)
	}
}
