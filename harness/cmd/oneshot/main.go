// oneshot performs encoder calls described on stdin in a freshly started process and prints
// one fingerprint per call (C15: history-freedom; C16: cold-start contention).
//
//	oneshot seq                      calls executed one after the other
//	oneshot concurrent <gomaxprocs>  all calls released together by a barrier, each on its own goroutine,
//	                                 as the very first library calls of the process
//	oneshot concurrent <gomaxprocs> <group>  the calls are released in consecutive groups of <group> calls, one
//	                                 group after the other (first calls of one size class at a time)
//
//	oneshot giant <fam> <n> <alphabet>  one call whose content is <n> characters cycling through <alphabet>
//	                                 (built here, no stdin); prints "giant: error", "giant: barcode WxH" or "giant: panic".
//	                                 A fatal runtime error (stack exhaustion, out of memory) kills the process.
//
// stdin: JSON array of enc.EncSpec. stdout: JSON {"fingerprints": [...], "goroutines_before": n, "goroutines_after": n}.
package main

import (
	"encoding/json"
	"fmt"
	"io"
	"os"
	"runtime"
	"strconv"
	"sync"
	"time"

	"verif/enc"
)

func main() {
	if len(os.Args) < 2 {
		fmt.Fprintln(os.Stderr, "usage: oneshot seq|concurrent <gomaxprocs>")
		os.Exit(2)
	}
	if os.Args[1] == "giant" && len(os.Args) == 5 {
		n, _ := strconv.Atoi(os.Args[3])
		alpha := os.Args[4]
		buf := make([]byte, n)
		for i := range buf {
			buf[i] = alpha[(i+i/len(alpha))%len(alpha)]
		}
		bc, err, pv := enc.Encode(enc.EncSpec{Fam: os.Args[2], Content: enc.BStr(buf), A: 1, F2: true})
		switch {
		case pv != nil:
			fmt.Printf("giant: panic %v\n", pv)
		case err != nil:
			fmt.Println("giant: error")
		default:
			b := bc.Bounds()
			fmt.Printf("giant: barcode %dx%d\n", b.Dx(), b.Dy())
		}
		return
	}
	// input: either a JSON array of specs, or {"specs": [...], "after": [...]}; the "after" calls are executed
	// sequentially once the first phase has finished (is the shared state still sound after the contention?)
	raw, err := io.ReadAll(os.Stdin)
	if err != nil {
		fmt.Fprintln(os.Stderr, "bad input:", err)
		os.Exit(2)
	}
	var specs, after []enc.EncSpec
	if err := json.Unmarshal(raw, &specs); err != nil {
		var in struct {
			Specs []enc.EncSpec `json:"specs"`
			After []enc.EncSpec `json:"after"`
		}
		if err2 := json.Unmarshal(raw, &in); err2 != nil {
			fmt.Fprintln(os.Stderr, "bad input:", err, err2)
			os.Exit(2)
		}
		specs, after = in.Specs, in.After
	}
	out := struct {
		Fingerprints      []string `json:"fingerprints"`
		AfterFingerprints []string `json:"after_fingerprints"`
		GoroutinesBefore  int      `json:"goroutines_before"`
		GoroutinesAfter   int      `json:"goroutines_after"`
	}{Fingerprints: make([]string, len(specs)), AfterFingerprints: make([]string, len(after))}
	switch os.Args[1] {
	case "seq":
		out.GoroutinesBefore = runtime.NumGoroutine()
		for i, s := range specs {
			out.Fingerprints[i] = enc.Fingerprint(enc.Encode(s))
		}
	case "concurrent":
		if len(os.Args) > 2 {
			if n, err := strconv.Atoi(os.Args[2]); err == nil && n > 0 {
				runtime.GOMAXPROCS(n)
			}
		}
		out.GoroutinesBefore = runtime.NumGoroutine()
		group := len(specs)
		if len(os.Args) > 3 {
			if n, err := strconv.Atoi(os.Args[3]); err == nil && n > 0 {
				group = n
			}
		}
		for lo := 0; lo < len(specs); lo += group {
			hi := min(lo+group, len(specs))
			start := make(chan struct{})
			var wg sync.WaitGroup
			for i := lo; i < hi; i++ {
				wg.Add(1)
				go func(i int) {
					defer wg.Done()
					<-start
					out.Fingerprints[i] = enc.Fingerprint(enc.Encode(specs[i]))
				}(i)
			}
			close(start)
			done := make(chan struct{})
			go func() { wg.Wait(); close(done) }()
			select {
			case <-done:
			case <-time.After(120 * time.Second):
				fmt.Fprintln(os.Stderr, "DEADLOCK-WATCHDOG: concurrent calls did not return within 120s")
				os.Exit(3)
			}
		}
	default:
		os.Exit(2)
	}
	for i, sp := range after {
		out.AfterFingerprints[i] = enc.Fingerprint(enc.Encode(sp))
	}
	// let library goroutines that are about to exit do so
	for i := 0; i < 3000 && runtime.NumGoroutine() > out.GoroutinesBefore; i++ {
		time.Sleep(time.Millisecond)
	}
	out.GoroutinesAfter = runtime.NumGoroutine()
	json.NewEncoder(os.Stdout).Encode(out)
}
