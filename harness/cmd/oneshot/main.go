// oneshot performs encoder calls described on stdin in a freshly started process and prints
// one fingerprint per call (C15: history-freedom; C16: cold-start contention).
//
//	oneshot seq                      calls executed one after the other
//	oneshot concurrent <gomaxprocs>  all calls released together by a barrier, each on its own goroutine,
//	                                 as the very first library calls of the process
//
// stdin: JSON array of enc.EncSpec. stdout: JSON {"fingerprints": [...], "goroutines_before": n, "goroutines_after": n}.
package main

import (
	"encoding/json"
	"fmt"
	"os"
	"runtime"
	"strconv"
	"sync"
	"time"

	"verif/enc"
)

func main() {
	if len(os.Args) < 2 {
		fmt.Fprintln(os.Stderr, "usage: oneshot seq|concurrent <gomaxprocs>")
		os.Exit(2)
	}
	var specs []enc.EncSpec
	if err := json.NewDecoder(os.Stdin).Decode(&specs); err != nil {
		fmt.Fprintln(os.Stderr, "bad input:", err)
		os.Exit(2)
	}
	out := struct {
		Fingerprints     []string `json:"fingerprints"`
		GoroutinesBefore int      `json:"goroutines_before"`
		GoroutinesAfter  int      `json:"goroutines_after"`
	}{Fingerprints: make([]string, len(specs))}
	switch os.Args[1] {
	case "seq":
		out.GoroutinesBefore = runtime.NumGoroutine()
		for i, s := range specs {
			out.Fingerprints[i] = enc.Fingerprint(enc.Encode(s))
		}
	case "concurrent":
		if len(os.Args) > 2 {
			if n, err := strconv.Atoi(os.Args[2]); err == nil && n > 0 {
				runtime.GOMAXPROCS(n)
			}
		}
		out.GoroutinesBefore = runtime.NumGoroutine()
		start := make(chan struct{})
		var wg sync.WaitGroup
		for i := range specs {
			wg.Add(1)
			go func(i int) {
				defer wg.Done()
				<-start
				out.Fingerprints[i] = enc.Fingerprint(enc.Encode(specs[i]))
			}(i)
		}
		close(start)
		done := make(chan struct{})
		go func() { wg.Wait(); close(done) }()
		select {
		case <-done:
		case <-time.After(120 * time.Second):
			fmt.Fprintln(os.Stderr, "DEADLOCK-WATCHDOG: concurrent calls did not return within 120s")
			os.Exit(3)
		}
	default:
		os.Exit(2)
	}
	// let library goroutines that are about to exit do so
	for i := 0; i < 200 && runtime.NumGoroutine() > out.GoroutinesBefore; i++ {
		time.Sleep(time.Millisecond)
	}
	out.GoroutinesAfter = runtime.NumGoroutine()
	json.NewEncoder(os.Stdout).Encode(out)
}
