module verif

go 1.23.5

require (
	github.com/boombuler/barcode v0.0.0
	pgregory.net/rapid v1.3.0
)

replace github.com/boombuler/barcode => /repo
