package ref

// Reference PDF417 reader (ISO/IEC 15438): rows, clusters, row indicators, Reed-Solomon over
// GF(929), text / byte / numeric compaction.

import (
	"errors"
	"fmt"
	"math/big"
)

type PDFResult struct {
	Rows, Cols int
	Level      int
	RowHeight  int
	Codewords  []int // all codewords row-major: descriptor, data, pads, check words
	Length     int   // symbol length descriptor
	Pads       int   // trailing 900 codewords inside the data region
	Content    []byte
	Segments   []string // compaction segments in order: "text", "byte901", "byte924", "numeric", "shift913"
	SubModes   []string // text sub-mode transitions seen, e.g. "alpha>lower"
	Patterns   [][2]int // (cluster, codeword) pairs rendered in the symbol
}

var pdfLookup [3]map[uint32]int

func init() {
	for c := 0; c < 3; c++ {
		pdfLookup[c] = map[uint32]int{}
		for v, p := range PDF417Patterns[c] {
			pdfLookup[c][p] = v
		}
	}
}

const (
	pdfStart = 0x1fea8 // 81111113
	pdfStop  = 0x3fa29 // 711311121, 18 modules
)

var (
	pdfMixed = []byte("0123456789&\r\t,:#-.$/+%*=^")
	pdfPunct = []byte(";<>@[\\]_`~!\r\t,:\n-.$/\"|*()?{}'")
)

func mod929(x int) int {
	x %= 929
	if x < 0 {
		x += 929
	}
	return x
}

// PDFSyndromes evaluates the codeword polynomial at 3^1..3^k modulo 929.
func PDFSyndromes(cw []int, k int) []int {
	out := make([]int, k)
	root := 1
	for j := 0; j < k; j++ {
		root = root * 3 % 929
		v := 0
		for _, c := range cw {
			v = (v*root + c) % 929
		}
		out[j] = v
	}
	return out
}

// DecodePDF417 reads a module matrix m[y][x] (true = dark).
func DecodePDF417(m [][]bool) (*PDFResult, error) {
	h := len(m)
	if h == 0 {
		return nil, errors.New("empty image")
	}
	w := len(m[0])
	if (w-1)%17 != 0 || (w-1)/17-4 < 1 || (w-1)/17-4 > 30 {
		return nil, fmt.Errorf("width %d is not 17(c+4)+1 with 1<=c<=30", w)
	}
	cols := (w-1)/17 - 4
	// group identical pixel rows
	var rowsPix [][]bool
	var heights []int
	for y := 0; y < h; y++ {
		if len(m[y]) != w {
			return nil, errors.New("ragged image")
		}
		same := len(rowsPix) > 0
		if same {
			last := rowsPix[len(rowsPix)-1]
			for x := 0; x < w; x++ {
				if last[x] != m[y][x] {
					same = false
					break
				}
			}
		}
		if same {
			heights[len(heights)-1]++
		} else {
			rowsPix = append(rowsPix, m[y])
			heights = append(heights, 1)
		}
	}
	for _, hh := range heights {
		if hh != heights[0] {
			return nil, fmt.Errorf("rows have unequal heights %v", heights)
		}
	}
	rows := len(rowsPix)
	if rows < 2 || rows > 90 {
		return nil, fmt.Errorf("%d rows", rows)
	}
	res := &PDFResult{Rows: rows, Cols: cols, RowHeight: heights[0], Level: -1}
	word := func(row []bool, pos, n int) uint32 {
		var v uint32
		for i := 0; i < n; i++ {
			v <<= 1
			if row[pos+i] {
				v |= 1
			}
		}
		return v
	}
	rowsFromInd, colsFromInd, levelFromInd := -1, -1, -1
	set := func(dst *int, v int, what string, r int) error {
		if *dst >= 0 && *dst != v {
			return fmt.Errorf("row %d: row indicator gives %s=%d, other rows say %d", r, what, v, *dst)
		}
		*dst = v
		return nil
	}
	rowsA, rowsB := -1, -1 // (rows-1)/3 and (rows-1)%3
	for r, row := range rowsPix {
		if word(row, 0, 17) != pdfStart {
			return nil, fmt.Errorf("row %d does not begin with the start pattern", r)
		}
		if word(row, w-18, 18) != pdfStop {
			return nil, fmt.Errorf("row %d does not end with the stop pattern", r)
		}
		cluster := r % 3
		vals := make([]int, cols+2)
		for i := 0; i < cols+2; i++ {
			p := word(row, 17+17*i, 17)
			v, ok := pdfLookup[cluster][p]
			if !ok {
				for oc := 0; oc < 3; oc++ {
					if ov, ok2 := pdfLookup[oc][p]; ok2 {
						return nil, fmt.Errorf("row %d position %d: pattern %#x is codeword %d of cluster %d, but row %d must use cluster %d", r, i, p, ov, oc*3, r, cluster*3)
					}
				}
				return nil, fmt.Errorf("row %d position %d: %#x is not a PDF417 codeword pattern", r, i, p)
			}
			vals[i] = v
			res.Patterns = append(res.Patterns, [2]int{cluster, v})
		}
		left, right := vals[0], vals[cols+1]
		if left/30 != r/3 || right/30 != r/3 {
			return nil, fmt.Errorf("row %d: row indicators %d/%d carry row-group %d/%d, want %d", r, left, right, left/30, right/30, r/3)
		}
		var e1, e2, e3 error
		switch cluster {
		case 0:
			e1 = set(&rowsA, left%30, "(rows-1)/3", r)
			e2 = set(&colsFromInd, right%30+1, "columns", r)
		case 1:
			e1 = set(&levelFromInd, (left%30)/3, "security level", r)
			e2 = set(&rowsB, (left%30)%3, "(rows-1) mod 3", r)
			e3 = set(&rowsA, right%30, "(rows-1)/3", r)
		case 2:
			e1 = set(&colsFromInd, left%30+1, "columns", r)
			e2 = set(&levelFromInd, (right%30)/3, "security level", r)
			e3 = set(&rowsB, (right%30)%3, "(rows-1) mod 3", r)
		}
		for _, e := range []error{e1, e2, e3} {
			if e != nil {
				return nil, e
			}
		}
		res.Codewords = append(res.Codewords, vals[1:cols+1]...)
	}
	if rowsA >= 0 && rowsB >= 0 {
		rowsFromInd = rowsA*3 + rowsB + 1
	}
	if rowsA != (rows-1)/3 {
		return nil, fmt.Errorf("row indicators encode (rows-1)/3 = %d, the symbol has %d rows", rowsA, rows)
	}
	if rowsB >= 0 && rowsFromInd != rows {
		return nil, fmt.Errorf("row indicators encode %d rows, the symbol has %d", rowsFromInd, rows)
	}
	if colsFromInd != cols {
		return nil, fmt.Errorf("row indicators encode %d columns, the symbol has %d", colsFromInd, cols)
	}
	if levelFromInd < 0 || levelFromInd > 8 {
		return nil, fmt.Errorf("row indicators encode security level %d", levelFromInd)
	}
	res.Level = levelFromInd
	k := 2 << uint(res.Level)
	total := rows * cols
	n := res.Codewords[0]
	res.Length = n
	if n+k != total || n < 1 {
		return nil, fmt.Errorf("length descriptor %d + %d check words (level %d) != %d rows x %d columns", n, k, res.Level, rows, cols)
	}
	if syn := PDFSyndromes(res.Codewords, k); !AllZero(syn) {
		return nil, fmt.Errorf("codewords are not a Reed-Solomon codeword over GF(929) for level %d (%d check words)", res.Level, k)
	}
	data := res.Codewords[1:n]
	for i := len(data) - 1; i >= 0 && data[i] == 900; i-- {
		res.Pads++
	}
	content, err := pdfDecodeData(data, res)
	if err != nil {
		return nil, err
	}
	res.Content = content
	return res, nil
}

func pdfDecodeData(cw []int, res *PDFResult) ([]byte, error) {
	var out []byte
	i := 0
	// text compaction state
	sub := "alpha"
	setSub := func(s string) {
		if s != sub {
			res.SubModes = append(res.SubModes, sub+">"+s)
			sub = s
		}
	}
	textValue := func(mode string, v int) (byte, string, bool) { // returns char, or action
		switch mode {
		case "alpha", "lower":
			base := byte('A')
			if mode == "lower" {
				base = 'a'
			}
			switch {
			case v < 26:
				return base + byte(v), "", true
			case v == 26:
				return ' ', "", true
			case v == 27:
				if mode == "alpha" {
					return 0, "ll", false
				}
				return 0, "as", false
			case v == 28:
				return 0, "ml", false
			default:
				return 0, "ps", false
			}
		case "mixed":
			switch {
			case v < 25:
				return pdfMixed[v], "", true
			case v == 25:
				return 0, "pl", false
			case v == 26:
				return ' ', "", true
			case v == 27:
				return 0, "ll", false
			case v == 28:
				return 0, "al", false
			default:
				return 0, "ps", false
			}
		default: // punct
			if v < 29 {
				return pdfPunct[v], "", true
			}
			return 0, "al", false
		}
	}
	decodeText := func() error {
		// consumes codewords < 900 and 913 shifts; returns at the next mode latch
		shift := "" // pending single shift: "ps" or "as"
		res.Segments = append(res.Segments, "text")
		for i < len(cw) {
			c := cw[i]
			if c == 913 {
				if i+1 >= len(cw) {
					return errors.New("913 at the end of the data")
				}
				shift = "" // a shift used as padding before 913 is ignored
				out = append(out, byte(cw[i+1]))
				if cw[i+1] > 255 {
					return fmt.Errorf("913 followed by %d", cw[i+1])
				}
				res.Segments = append(res.Segments, "shift913")
				i += 2
				continue
			}
			if c >= 900 {
				return nil
			}
			i++
			for _, v := range []int{c / 30, c % 30} {
				mode := sub
				if shift == "ps" {
					mode = "punct"
				} else if shift == "as" {
					mode = "alpha"
				}
				ch, act, isChar := textValue(mode, v)
				if shift != "" {
					shift = ""
					if isChar {
						out = append(out, ch)
						continue
					}
					// a latch/shift value right after a shift: only 'al' reached through ps is defined (latch to alpha)
					if act == "al" {
						setSub("alpha")
						continue
					}
					return fmt.Errorf("shift followed by the non-character value %d", v)
				}
				if isChar {
					out = append(out, ch)
					continue
				}
				switch act {
				case "ll":
					setSub("lower")
				case "ml":
					setSub("mixed")
				case "al":
					setSub("alpha")
				case "pl":
					setSub("punct")
				case "ps", "as":
					shift = act
				}
			}
		}
		return nil
	}
	if len(cw) == 0 {
		return out, nil
	}
	// the default mode at the start of a symbol is text compaction, alpha sub-mode
	if cw[0] < 900 || cw[0] == 913 {
		if err := decodeText(); err != nil {
			return nil, err
		}
	}
	for i < len(cw) {
		c := cw[i]
		i++
		switch c {
		case 900:
			sub = "alpha"
			if i < len(cw) && (cw[i] < 900 || cw[i] == 913) {
				if err := decodeText(); err != nil {
					return nil, err
				}
			}
		case 901, 924:
			start := i
			for i < len(cw) && cw[i] < 900 {
				i++
			}
			seg := cw[start:i]
			groups := 0
			if c == 924 {
				if len(seg)%5 != 0 {
					return nil, fmt.Errorf("924 byte segment of %d codewords is not a multiple of 5", len(seg))
				}
				groups = len(seg) / 5
				res.Segments = append(res.Segments, "byte924")
			} else {
				if len(seg) > 0 {
					groups = (len(seg) - 1) / 5
				}
				res.Segments = append(res.Segments, fmt.Sprintf("byte901 rem%d", len(seg)-5*groups))
			}
			for g := 0; g < groups; g++ {
				var v uint64
				for _, x := range seg[5*g : 5*g+5] {
					v = v*900 + uint64(x)
				}
				if v >= 1<<48 {
					return nil, errors.New("byte compaction group value exceeds 6 bytes")
				}
				for s := 40; s >= 0; s -= 8 {
					out = append(out, byte(v>>uint(s)))
				}
			}
			for _, x := range seg[5*groups:] {
				if x > 255 {
					return nil, fmt.Errorf("direct byte codeword %d", x)
				}
				out = append(out, byte(x))
			}
		case 902:
			start := i
			for i < len(cw) && cw[i] < 900 {
				i++
			}
			seg := cw[start:i]
			res.Segments = append(res.Segments, "numeric")
			for len(seg) > 0 {
				g := seg
				if len(g) > 15 {
					g = g[:15]
				}
				seg = seg[len(g):]
				v := new(big.Int)
				for _, x := range g {
					v.Mul(v, big.NewInt(900))
					v.Add(v, big.NewInt(int64(x)))
				}
				s := v.String()
				if s[0] != '1' {
					return nil, fmt.Errorf("numeric group does not start with the leading 1: %s", s)
				}
				out = append(out, s[1:]...)
			}
		default:
			return nil, fmt.Errorf("codeword %d not expected from this encoder", c)
		}
	}
	return out, nil
}

// SelfTestPDF417 validates the frozen pattern table structurally.
func SelfTestPDF417() error {
	for c := 0; c < 3; c++ {
		seen := map[uint32]bool{}
		for v, p := range PDF417Patterns[c] {
			if p>>16 != 1 || p&1 != 0 {
				return fmt.Errorf("pdf417 cluster %d codeword %d: %#x does not start with a bar and end with a space in 17 modules", c*3, v, p)
			}
			var widths []int
			cur, n := true, 0
			for i := 16; i >= 0; i-- {
				b := p>>uint(i)&1 == 1
				if b == cur {
					n++
				} else {
					widths = append(widths, n)
					cur, n = b, 1
				}
			}
			widths = append(widths, n)
			if len(widths) != 8 {
				return fmt.Errorf("pdf417 cluster %d codeword %d: %d elements", c*3, v, len(widths))
			}
			for _, x := range widths {
				if x < 1 || x > 6 {
					return fmt.Errorf("pdf417 cluster %d codeword %d: element width %d", c*3, v, x)
				}
			}
			if k := ((widths[0]-widths[2]+widths[4]-widths[6])%9 + 9) % 9; k != c*3 {
				return fmt.Errorf("pdf417 cluster %d codeword %d: pattern %#x belongs to cluster %d", c*3, v, p, k)
			}
			if seen[p] {
				return fmt.Errorf("pdf417 cluster %d: duplicate pattern %#x", c*3, p)
			}
			seen[p] = true
		}
	}
	if PDF417Patterns[0][0] != 0x1d5c0 || len(pdfMixed) != 25 || len(pdfPunct) != 29 {
		return errors.New("pdf417 spot values")
	}
	// RS spot check: the standard's generator for level 0 is (x-3)(x-9) = x^2 + 917x + 27
	if s := PDFSyndromes([]int{1, 917, 27}, 2); !AllZero(s) {
		return errors.New("pdf417 GF(929) evaluation broken")
	}
	// high-level decoding of externally sourced codeword vectors (the ISO "alcool" examples and the
	// vectors of the library's test-suite, used as data)
	vectors := []struct {
		cw   []int
		text string
	}{
		{[]int{902, 112, 434}, "01234"},
		{[]int{567, 615, 137, 809, 329}, "Super !"},
		{[]int{567, 615, 137, 809}, "Super "},
		{[]int{1, 88, 32, 119}, "ABC123"},
		{[]int{841, 63, 840, 32}, "123ABC"},
		{[]int{924, 163, 238, 432, 766, 244}, "alcool"},
		{[]int{901, 163, 238, 432, 766, 244, 105, 113, 117, 101}, "alcoolique"},
		{[]int{1, 913, 200, 63, 900, 900}, "AB\xc8CD"},
	}
	for _, v := range vectors {
		got, err := pdfDecodeData(v.cw, &PDFResult{})
		if err != nil || string(got) != v.text {
			return fmt.Errorf("pdf417 high-level decoding of %v gives %q, %v; want %q", v.cw, got, err, v.text)
		}
	}
	return nil
}
