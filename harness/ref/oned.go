package ref

// Reference decoders for the linear symbologies, written from the symbology specifications
// (ISO/IEC 15417 Code 128, ISO/IEC 15420 EAN, ISO/IEC 16388 Code 39, AIM Code 93, Codabar
// (ANSI/AIM BC3), ITF/2-of-5). All tables below are literal reference data frozen in /verif.

import (
	"errors"
	"fmt"
	"strings"
)

// Runs converts a module row into run lengths, starting with a bar run. An empty row or one
// that starts with a space is rejected.
func Runs(m []bool) ([]int, error) {
	if len(m) == 0 || !m[0] {
		return nil, errors.New("symbol does not start with a bar")
	}
	var out []int
	cur, n := true, 0
	for _, b := range m {
		if b == cur {
			n++
		} else {
			out = append(out, n)
			cur, n = b, 1
		}
	}
	return append(out, n), nil
}

func bitsOf(s string) []bool {
	out := make([]bool, len(s))
	for i, c := range s {
		out[i] = c == '1'
	}
	return out
}

func eqBits(m []bool, pos int, pat string) bool {
	if pos+len(pat) > len(m) {
		return false
	}
	for i, c := range pat {
		if m[pos+i] != (c == '1') {
			return false
		}
	}
	return true
}

func bitString(m []bool) string {
	var sb strings.Builder
	for _, b := range m {
		if b {
			sb.WriteByte('1')
		} else {
			sb.WriteByte('0')
		}
	}
	return sb.String()
}

// ---------------------------------------------------------------------------------------------
// Code 128

// Code128Widths: bar/space widths of symbol values 0..105 (6 elements, 11 modules) and the stop
// pattern 106 (7 elements, 13 modules).
var Code128Widths = [107]string{
	"212222", "222122", "222221", "121223", "121322", "131222", "122213", "122312", "132212", "221213",
	"221312", "231212", "112232", "122132", "122231", "113222", "123122", "123221", "223211", "221132",
	"221231", "213212", "223112", "312131", "311222", "321122", "321221", "312212", "322112", "322211",
	"212123", "212321", "232121", "111323", "131123", "131321", "112313", "132113", "132311", "211313",
	"231113", "231311", "112133", "112331", "132131", "113123", "113321", "133121", "313121", "211331",
	"231131", "213113", "213311", "213131", "311123", "311321", "331121", "312113", "312311", "332111",
	"314111", "221411", "431111", "111224", "111422", "121124", "121421", "141122", "141221", "112214",
	"112412", "122114", "122411", "142112", "142211", "241211", "221114", "413111", "241112", "134111",
	"111242", "121142", "121241", "114212", "124112", "124211", "411212", "421112", "421211", "212141",
	"214121", "412121", "111143", "111341", "131141", "114113", "114311", "411113", "411311", "113141",
	"114131", "311141", "411131", "211412", "211214", "211232", "2331112",
}

var code128ByPattern map[string]int

func widthsToBits(w string) string {
	var sb strings.Builder
	bar := true
	for _, c := range w {
		for i := 0; i < int(c-'0'); i++ {
			if bar {
				sb.WriteByte('1')
			} else {
				sb.WriteByte('0')
			}
		}
		bar = !bar
	}
	return sb.String()
}

func init() {
	code128ByPattern = map[string]int{}
	for v, w := range Code128Widths {
		code128ByPattern[widthsToBits(w)] = v
	}
}

// Code 128 function characters are represented by the placeholders the library documents.
const (
	FNC1 = 'ñ'
	FNC2 = 'ò'
	FNC3 = 'ó'
	FNC4 = 'ô'
)

type Code128Result struct {
	Values   []int  // all symbol values between start and stop, start included, check excluded
	Check    int    // value of the check character (-1 if the symbol was read without one)
	CheckOK  bool   // check character equals the modulo-103 sum
	WantSum  int    // the modulo-103 sum recomputed from the values
	Text     string // interpretation (FNC as placeholders)
	StartSet byte   // 'A','B','C'
	Switches int    // number of CODE x / SHIFT characters
	UsedSets string // sets used, e.g. "BCB"
}

// DecodeCode128 reads a Code 128 module row. withCheck tells whether the last character before
// the stop pattern is a check character.
func DecodeCode128(m []bool, withCheck bool) (*Code128Result, error) {
	if len(m) < 11+13 || (len(m)-13)%11 != 0 {
		return nil, fmt.Errorf("width %d is not 11k+13", len(m))
	}
	n := (len(m) - 13) / 11
	vals := make([]int, 0, n)
	for i := 0; i < n; i++ {
		v, ok := code128ByPattern[bitString(m[i*11:i*11+11])]
		if !ok || v > 105 {
			return nil, fmt.Errorf("character %d (%s) is not a Code 128 pattern", i, bitString(m[i*11:i*11+11]))
		}
		vals = append(vals, v)
	}
	if bitString(m[n*11:]) != widthsToBits(Code128Widths[106]) {
		return nil, fmt.Errorf("stop pattern is %s", bitString(m[n*11:]))
	}
	res := &Code128Result{Check: -1}
	if vals[0] < 103 {
		return nil, fmt.Errorf("first character %d is not a start character", vals[0])
	}
	if withCheck {
		if len(vals) < 2 {
			return nil, errors.New("no room for a check character")
		}
		res.Check = vals[len(vals)-1]
		vals = vals[:len(vals)-1]
	}
	sum := vals[0]
	for i := 1; i < len(vals); i++ {
		sum += i * vals[i]
	}
	res.WantSum = sum % 103
	res.CheckOK = res.Check == res.WantSum
	res.Values = vals
	set := byte('A' + vals[0] - 103)
	res.StartSet = set
	res.UsedSets = string(set)
	var sb strings.Builder
	shift := false
	for i := 1; i < len(vals); i++ {
		v := vals[i]
		if v >= 103 {
			return nil, fmt.Errorf("start/stop value %d inside the data", v)
		}
		cur := set
		if shift {
			if set == 'A' {
				cur = 'B'
			} else {
				cur = 'A'
			}
			shift = false
		}
		switch cur {
		case 'C':
			switch {
			case v < 100:
				sb.WriteByte(byte('0' + v/10))
				sb.WriteByte(byte('0' + v%10))
			case v == 100:
				set = 'B'
			case v == 101:
				set = 'A'
			case v == 102:
				sb.WriteRune(FNC1)
			}
		case 'A', 'B':
			switch {
			case v < 64:
				sb.WriteByte(byte(32 + v))
			case v < 96 && cur == 'A':
				sb.WriteByte(byte(v - 64))
			case v < 96:
				sb.WriteByte(byte(32 + v))
			case v == 96:
				sb.WriteRune(FNC3)
			case v == 97:
				sb.WriteRune(FNC2)
			case v == 98:
				shift = true
				res.Switches++
			case v == 99:
				set = 'C'
			case v == 100 && cur == 'A':
				set = 'B'
			case v == 100:
				sb.WriteRune(FNC4)
			case v == 101 && cur == 'A':
				sb.WriteRune(FNC4)
			case v == 101:
				set = 'A'
			case v == 102:
				sb.WriteRune(FNC1)
			}
		}
		if set != res.UsedSets[len(res.UsedSets)-1] {
			res.UsedSets += string(set)
			res.Switches++
		}
	}
	if shift {
		return nil, errors.New("dangling SHIFT")
	}
	res.Text = sb.String()
	return res, nil
}

// ---------------------------------------------------------------------------------------------
// EAN-8 / EAN-13

var eanL = [10]string{"0001101", "0011001", "0010011", "0111101", "0100011", "0110001", "0101111", "0111011", "0110111", "0001011"}

// parity of the six left digits of EAN-13 selected by the leading digit (L = odd, G = even)
var eanParity = [10]string{"LLLLLL", "LLGLGG", "LLGGLG", "LLGGGL", "LGLLGG", "LGGLLG", "LGGGLL", "LGLGLG", "LGLGGL", "LGGLGL"}

func eanR(d int) string { // R = complement of L
	b := []byte(eanL[d])
	for i := range b {
		b[i] ^= 1
	}
	return string(b)
}

func eanG(d int) string { // G = R reversed
	r := eanR(d)
	b := make([]byte, 7)
	for i := range b {
		b[i] = r[6-i]
	}
	return string(b)
}

// GS1Check returns the GS1 modulo-10 check digit of a digit string without check digit
// (weights 3,1,3,... starting from the rightmost data digit).
func GS1Check(digits string) int {
	sum := 0
	w := 3
	for i := len(digits) - 1; i >= 0; i-- {
		sum += int(digits[i]-'0') * w
		w = 4 - w
	}
	return (10 - sum%10) % 10
}

// DecodeEAN reads a 67-module (EAN-8) or 95-module (EAN-13) row and returns the digits.
func DecodeEAN(m []bool) (string, error) {
	var nl int // digits per half
	switch len(m) {
	case 67:
		nl = 4
	case 95:
		nl = 6
	default:
		return "", fmt.Errorf("width %d is neither 67 nor 95", len(m))
	}
	if !eqBits(m, 0, "101") {
		return "", errors.New("left guard is not 101")
	}
	if !eqBits(m, 3+7*nl, "01010") {
		return "", errors.New("centre guard is not 01010")
	}
	if !eqBits(m, len(m)-3, "101") {
		return "", errors.New("right guard is not 101")
	}
	var digits []byte
	parity := ""
	for i := 0; i < nl; i++ {
		s := bitString(m[3+7*i : 10+7*i])
		found := false
		for d := 0; d < 10; d++ {
			if s == eanL[d] {
				digits = append(digits, byte('0'+d))
				parity += "L"
				found = true
			} else if s == eanG(d) {
				digits = append(digits, byte('0'+d))
				parity += "G"
				found = true
			}
		}
		if !found {
			return "", fmt.Errorf("left digit %d (%s) is in neither set A nor B", i, s)
		}
	}
	for i := 0; i < nl; i++ {
		p := 3 + 7*nl + 5 + 7*i
		s := bitString(m[p : p+7])
		found := false
		for d := 0; d < 10; d++ {
			if s == eanR(d) {
				digits = append(digits, byte('0'+d))
				found = true
			}
		}
		if !found {
			return "", fmt.Errorf("right digit %d (%s) is not in set C", i, s)
		}
	}
	if nl == 4 {
		if parity != "LLLL" {
			return "", fmt.Errorf("EAN-8 left half uses parity %s", parity)
		}
		return string(digits), nil
	}
	for d := 0; d < 10; d++ {
		if eanParity[d] == parity {
			return string(byte('0'+d)) + string(digits), nil
		}
	}
	return "", fmt.Errorf("parity pattern %s encodes no leading digit", parity)
}

// ---------------------------------------------------------------------------------------------
// Code 39

const Code39Chars = "0123456789ABCDEFGHIJKLMNOPQRSTUVWXYZ-. $/+%"

// code39Elements returns the 9 elements (bar,space,bar,...; true = wide) of a character,
// built from the structure of the code: a 2-of-5 bar code plus one wide space whose position
// selects the group; $ / + % have all bars narrow and three wide spaces.
func code39Elements(c byte) ([9]bool, bool) {
	var e [9]bool
	twoOfFive := [10]string{"10001", "01001", "11000", "00101", "10100", "01100", "00011", "10010", "01010", "00110"} // 1,2,...,9,0
	groups := []struct {
		chars string
		space int
	}{{"1234567890", 1}, {"ABCDEFGHIJ", 2}, {"KLMNOPQRST", 3}, {"UVWXYZ-. *", 0}}
	for _, g := range groups {
		if i := strings.IndexByte(g.chars, c); i >= 0 {
			for b := 0; b < 5; b++ {
				e[2*b] = twoOfFive[i][b] == '1'
			}
			e[2*g.space+1] = true
			return e, true
		}
	}
	if i := strings.IndexByte("$/+%", c); i >= 0 {
		for s := 0; s < 4; s++ {
			e[2*s+1] = s != 3-i // the narrow space: $ -> 4th, / -> 3rd, + -> 2nd, % -> 1st
		}
		return e, true
	}
	return e, false
}

func code39Pattern(c byte) string {
	e, ok := code39Elements(c)
	if !ok {
		return ""
	}
	var sb strings.Builder
	for i, wide := range e {
		ch := byte('1')
		if i%2 == 1 {
			ch = '0'
		}
		sb.WriteByte(ch)
		if wide {
			sb.WriteByte(ch)
		}
	}
	return sb.String()
}

func Code39Value(c byte) int { return strings.IndexByte(Code39Chars, c) }

// DecodeCode39Raw reads the characters between the start and stop '*' (12-module characters
// with wide = 2 narrow, separated by one-module gaps).
func DecodeCode39Raw(m []bool) (string, error) {
	if (len(m)+1)%13 != 0 || len(m) < 25 {
		return "", fmt.Errorf("width %d is not 13n-1 with n>=2", len(m))
	}
	n := (len(m) + 1) / 13
	var out []byte
	for i := 0; i < n; i++ {
		s := bitString(m[i*13 : i*13+12])
		if i > 0 && m[i*13-1] {
			return "", fmt.Errorf("inter-character gap before character %d is dark", i)
		}
		found := byte(0)
		for _, c := range []byte(Code39Chars + "*") {
			if code39Pattern(c) == s {
				found = c
			}
		}
		if found == 0 {
			return "", fmt.Errorf("character %d (%s) is not a Code 39 pattern", i, s)
		}
		out = append(out, found)
	}
	if out[0] != '*' || out[n-1] != '*' {
		return "", fmt.Errorf("start/stop characters are %q and %q", out[0], out[n-1])
	}
	body := string(out[1 : n-1])
	if strings.Contains(body, "*") {
		return "", errors.New("'*' inside the data")
	}
	return body, nil
}

// Code39Check returns the modulo-43 check value of a basic-alphabet string (-1 on bad char).
func Code39Check(s string) int {
	sum := 0
	for i := 0; i < len(s); i++ {
		v := Code39Value(s[i])
		if v < 0 {
			return -1
		}
		sum += v
	}
	return sum % 43
}

// FullASCIIDecode resolves the Code 39 / Code 93 full-ASCII shift pairs. The four shift
// characters are passed in (Code 39: "$%/+", Code 93: the four special characters).
func FullASCIIDecode(r []rune, dollar, percent, slash, plus rune) (string, error) {
	var out []byte
	for i := 0; i < len(r); i++ {
		c := r[i]
		if c != dollar && c != percent && c != slash && c != plus {
			if c > 127 {
				return "", fmt.Errorf("unexpected character %q", c)
			}
			out = append(out, byte(c))
			continue
		}
		if i+1 >= len(r) {
			return "", errors.New("dangling shift character")
		}
		n := r[i+1]
		i++
		if n < 'A' || n > 'Z' {
			return "", fmt.Errorf("shift followed by %q", n)
		}
		k := byte(n - 'A')
		switch c {
		case dollar:
			out = append(out, 1+k)
		case plus:
			out = append(out, 'a'+k)
		case slash:
			switch {
			case k <= 14:
				out = append(out, '!'+k)
			case n == 'Z':
				out = append(out, ':')
			default:
				return "", fmt.Errorf("undefined pair /%c", n)
			}
		case percent:
			switch {
			case k <= 4:
				out = append(out, 27+k)
			case k <= 9:
				out = append(out, 59+k-5)
			case k <= 14:
				out = append(out, 91+k-10)
			case k <= 19:
				out = append(out, 123+k-15)
			case n == 'U':
				out = append(out, 0)
			case n == 'V':
				out = append(out, '@')
			case n == 'W':
				out = append(out, '`')
			default:
				out = append(out, 127) // %X %Y %Z = DEL
			}
		}
	}
	return string(out), nil
}

// ---------------------------------------------------------------------------------------------
// Code 93

// Code93Patterns: 9-module patterns of values 0..46 and the start/stop character (47).
var Code93Patterns = [48]string{
	"100010100", "101001000", "101000100", "101000010", "100101000", "100100100", "100100010", "101010000", "100010010", "100001010",
	"110101000", "110100100", "110100010", "110010100", "110010010", "110001010", "101101000", "101100100", "101100010", "100110100",
	"100011010", "101011000", "101001100", "101000110", "100101100", "100010110", "110110100", "110110010", "110101100", "110100110",
	"110010110", "110011010", "101101100", "101100110", "100110110", "100111010", "100101110", "111010100", "111010010", "111001010",
	"101101110", "101110110", "110101110", "100100110", "111011010", "111010110", "100110010", "101011110",
}

// Code93Chars maps values 0..46 to runes; the four shift characters use the library's placeholders.
var Code93Chars = []rune("0123456789ABCDEFGHIJKLMNOPQRSTUVWXYZ-. $/+%ñòóô")

func Code93Value(r rune) int {
	for i, c := range Code93Chars {
		if c == r {
			return i
		}
	}
	return -1
}

// DecodeCode93Raw returns the symbol values between start and stop (check characters included).
func DecodeCode93Raw(m []bool) ([]int, error) {
	if (len(m)-1)%9 != 0 || len(m) < 19 {
		return nil, fmt.Errorf("width %d is not 9n+1 with n>=2", len(m))
	}
	if !m[len(m)-1] {
		return nil, errors.New("termination bar missing")
	}
	n := (len(m) - 1) / 9
	var vals []int
	for i := 0; i < n; i++ {
		s := bitString(m[i*9 : i*9+9])
		v := -1
		for k, p := range Code93Patterns {
			if p == s {
				v = k
			}
		}
		if v < 0 {
			return nil, fmt.Errorf("character %d (%s) is not a Code 93 pattern", i, s)
		}
		vals = append(vals, v)
	}
	if vals[0] != 47 || vals[n-1] != 47 {
		return nil, fmt.Errorf("start/stop values are %d and %d", vals[0], vals[n-1])
	}
	for _, v := range vals[1 : n-1] {
		if v == 47 {
			return nil, errors.New("start/stop character inside the data")
		}
	}
	return vals[1 : n-1], nil
}

// Code93Check computes a Code 93 check value over vals with weights 1..maxWeight from the right.
func Code93Check(vals []int, maxWeight int) int {
	sum, w := 0, 1
	for i := len(vals) - 1; i >= 0; i-- {
		sum += vals[i] * w
		w++
		if w > maxWeight {
			w = 1
		}
	}
	return sum % 47
}

// ---------------------------------------------------------------------------------------------
// Codabar

const CodabarChars = "0123456789-$:/.+ABCD"

// codabarElements: 7 elements b s b s b s b, '1' = wide.
var codabarElements = [20]string{"0000011", "0000110", "0001001", "1100000", "0010010", "1000010", "0100001", "0100100", "0110000", "1001000",
	"0001100", "0011000", "1000101", "1010001", "1010100", "0010101", "0011010", "0101001", "0001011", "0001110"}

// DecodeCodabar reads characters of 7 elements separated by narrow gaps; narrow = 1 module,
// wide = one consistent width of 2 or 3 modules.
func DecodeCodabar(m []bool) (string, error) {
	runs, err := Runs(m)
	if err != nil {
		return "", err
	}
	if len(runs)%8 != 7 {
		return "", fmt.Errorf("%d elements is not 8n-1", len(runs))
	}
	wide := 0
	for _, r := range runs {
		if r == 1 {
			continue
		}
		if r > 3 || (wide != 0 && r != wide) {
			return "", fmt.Errorf("element widths are not a consistent narrow/wide pair (saw %d and %d)", wide, r)
		}
		wide = r
	}
	var out []byte
	for i := 0; i+7 <= len(runs); i += 8 {
		var sb strings.Builder
		for _, r := range runs[i : i+7] {
			if r == 1 {
				sb.WriteByte('0')
			} else {
				sb.WriteByte('1')
			}
		}
		k := -1
		for j, e := range codabarElements {
			if e == sb.String() {
				k = j
			}
		}
		if k < 0 {
			return "", fmt.Errorf("character %d (%s) is not a Codabar pattern", i/8, sb.String())
		}
		out = append(out, CodabarChars[k])
		if i+7 < len(runs) && runs[i+7] != 1 {
			return "", fmt.Errorf("inter-character gap after character %d is %d modules", i/8, runs[i+7])
		}
	}
	return string(out), nil
}

// ---------------------------------------------------------------------------------------------
// 2 of 5

// twoOfFive[d]: 5 elements, '1' = wide (weights 1,2,4,7,parity).
var twoOfFive = [10]string{"00110", "10001", "01001", "11000", "00101", "10100", "01100", "00011", "10010", "01010"}

func digitOf(elems string) int {
	for d, p := range twoOfFive {
		if p == elems {
			return d
		}
	}
	return -1
}

func classify(r int) (byte, bool) {
	switch r {
	case 1:
		return '0', true
	case 2, 3:
		return '1', true
	}
	return 0, false
}

// Decode2of5 reads standard (bars only, narrow spaces) or interleaved 2-of-5.
// Start/stop: standard wide-narrow-wide-narrow-narrow-narrow / wide-narrow-narrow-narrow-wide,
// interleaved n-n-n-n / wide-narrow-narrow. Data elements: narrow = 1 module, wide = 3 modules.
func Decode2of5(m []bool, interleaved bool) (string, error) {
	runs, err := Runs(m)
	if err != nil {
		return "", err
	}
	cls := make([]byte, len(runs))
	for i, r := range runs {
		c, ok := classify(r)
		if !ok {
			return "", fmt.Errorf("element %d is %d modules wide", i, r)
		}
		cls[i] = c
	}
	start, stop := "101000", "10001"
	if interleaved {
		start, stop = "0000", "100"
	}
	if len(cls) < len(start)+len(stop) || string(cls[:len(start)]) != start || string(cls[len(cls)-len(stop):]) != stop {
		return "", fmt.Errorf("start/stop elements wrong: %s ... %s", string(cls[:min(len(cls), len(start))]), string(cls[max(0, len(cls)-len(stop)):]))
	}
	body := cls[len(start) : len(cls)-len(stop)]
	braw := runs[len(start) : len(runs)-len(stop)]
	if len(body)%10 != 0 {
		return "", fmt.Errorf("%d data elements is not a multiple of 10", len(body))
	}
	for i, r := range braw {
		if r != 1 && r != 3 {
			return "", fmt.Errorf("data element %d is %d modules wide (want 1 or 3)", i, r)
		}
	}
	var out []byte
	for i := 0; i < len(body); i += 10 {
		var bars, spaces []byte
		for j := 0; j < 10; j += 2 {
			bars = append(bars, body[i+j])
			spaces = append(spaces, body[i+j+1])
		}
		a := digitOf(string(bars))
		if a < 0 {
			return "", fmt.Errorf("bars %s encode no digit", bars)
		}
		out = append(out, byte('0'+a))
		if interleaved {
			b := digitOf(string(spaces))
			if b < 0 {
				return "", fmt.Errorf("spaces %s encode no digit", spaces)
			}
			out = append(out, byte('0'+b))
		} else if string(spaces) != "00000" {
			return "", fmt.Errorf("standard 2 of 5 with a wide space (%s)", spaces)
		}
	}
	return string(out), nil
}

// Check2of5 reports whether the 3-1 weighted sum from the right (check digit weight 1) is a
// multiple of ten.
func Check2of5(digits string) bool {
	sum, w := 0, 1
	for i := len(digits) - 1; i >= 0; i-- {
		sum += int(digits[i]-'0') * w
		w = 4 - w
	}
	return sum%10 == 0
}

// SelfTest1D checks the structure of the frozen tables (run at the start of every check).
func SelfTest1D() error {
	seen := map[string]bool{}
	for v, w := range Code128Widths {
		sum, bars := 0, 0
		for i, c := range w {
			sum += int(c - '0')
			if i%2 == 0 {
				bars += int(c - '0')
			}
			if c < '1' || c > '4' {
				return fmt.Errorf("code128[%d] element width %c", v, c)
			}
		}
		if v < 106 && (len(w) != 6 || sum != 11 || bars%2 != 0) {
			return fmt.Errorf("code128[%d]=%s violates 6 elements/11 modules/even bar parity", v, w)
		}
		if v == 106 && (len(w) != 7 || sum != 13) {
			return fmt.Errorf("code128 stop %s", w)
		}
		if seen[w] {
			return fmt.Errorf("code128 duplicate %s", w)
		}
		seen[w] = true
	}
	seen = map[string]bool{}
	for v, p := range Code93Patterns {
		if len(p) != 9 || p[0] != '1' || p[8] != '0' || seen[p] {
			return fmt.Errorf("code93[%d]=%s malformed or duplicate", v, p)
		}
		seen[p] = true
		r, _ := Runs(bitsOf(p))
		if len(r) != 6 {
			return fmt.Errorf("code93[%d]=%s does not have 3 bars and 3 spaces", v, p)
		}
	}
	seen = map[string]bool{}
	for _, c := range []byte(Code39Chars + "*") {
		p := code39Pattern(c)
		if len(p) != 12 || seen[p] {
			return fmt.Errorf("code39 %q pattern %s malformed or duplicate", c, p)
		}
		seen[p] = true
	}
	if code39Pattern('A') != "110101001011" || code39Pattern('*') != "100101101101" || code39Pattern('$') != "100100100101" || code39Pattern('%') != "101001001001" {
		return errors.New("code39 spot values")
	}
	seen = map[string]bool{}
	for i, e := range codabarElements {
		w := strings.Count(e, "1")
		if len(e) != 7 || seen[e] || (w != 2 && w != 3) {
			return fmt.Errorf("codabar[%d]=%s malformed", i, e)
		}
		seen[e] = true
	}
	for d, p := range twoOfFive {
		if strings.Count(p, "1") != 2 {
			return fmt.Errorf("2of5[%d]=%s", d, p)
		}
		// weights 1,2,4,7: value = sum mod 11 (0 is coded as 4+7)
		v := 0
		for i, w := range []int{1, 2, 4, 7} {
			if p[i] == '1' {
				v += w
			}
		}
		if v%11 != d {
			return fmt.Errorf("2of5[%d]=%s has weight %d", d, p, v)
		}
	}
	for d := 0; d < 10; d++ {
		if strings.Count(eanL[d], "1")%2 != 1 || eanL[d][0] != '0' || eanL[d][6] != '1' {
			return fmt.Errorf("eanL[%d]=%s is not an odd-parity set A pattern", d, eanL[d])
		}
	}
	if GS1Check("400638133393") != 1 || GS1Check("7351353") != 7 || GS1Check("5512345") != 7 {
		return errors.New("GS1 check digit spot values")
	}
	// decoder self-tests on externally sourced symbols (expected bit strings of the library's own test-suite, as data)
	if d, err := DecodeEAN(bitsOf("10100010110100111011001100100110111101001110101010110011011011001000010101110010011101000100101")); err != nil || d != "5901234123457" {
		return fmt.Errorf("EAN-13 reference symbol decodes to %q, %v", d, err)
	}
	if d, err := DecodeEAN(bitsOf("1010110001011000100110010010011010101000010101110010011101000100101")); err != nil || d != "55123457" {
		return fmt.Errorf("EAN-8 reference symbol decodes to %q, %v", d, err)
	}
	if r, err := DecodeCode128(bitsOf("110100100001100010100011000100010101110111101000101100011100010110110000101001011110111011000101000111011000101100011101011"), true); err != nil || r.Text != "HI345678H" || !r.CheckOK {
		return fmt.Errorf("Code 128 reference symbol 1: %+v, %v", r, err)
	}
	if r, err := DecodeCode128(bitsOf("11010011100"+"11110101110"+"10110011100"+"10001011000"+"11101001100"+"1100011101011"), true); err != nil || r.Text != "ñ1234" || !r.CheckOK || r.Check != 24 {
		return fmt.Errorf("Code 128 reference symbol 2: %+v, %v", r, err)
	}
	if r, err := DecodeCode128(bitsOf("110100001001011110001010010001100111011101101111011101011000100010110001010001100011101011"), true); err != nil || r.Text != "ó$P\rI" || !r.CheckOK {
		return fmt.Errorf("Code 128 reference symbol 3: %+v, %v", r, err)
	}
	if d, err := DecodeCodabar(bitsOf("10110010010101101001010101001101010110010110101001010010101101001001011")); err != nil || d != "A40156B" {
		return fmt.Errorf("Codabar reference symbol decodes to %q, %v", d, err)
	}
	if d, err := Decode2of5(bitsOf("1101101011101010101110101110101011101110111010101010101110101110111010111010101011101110101010101011101110101011101110101101011"), false); err != nil || d != "12345670" {
		return fmt.Errorf("2 of 5 reference symbol decodes to %q, %v", d, err)
	}
	if d, err := Decode2of5(bitsOf("101011101000101011100011101110100010100011101000111000101010101000111000111011101"), true); err != nil || d != "12345670" {
		return fmt.Errorf("ITF reference symbol decodes to %q, %v", d, err)
	}
	c39 := "1001011011010110101001011010110100101101101101001010101011001011011010110010101" +
		"011011001010101010011011011010100110101011010011010101011001101011010101001101011010" +
		"100110110110101001010101101001101101011010010101101101001010101011001101101010110010" +
		"101101011001010101101100101100101010110100110101011011001101010101001011010110110010" +
		"110101010011011010101010011011010110100101011010110010101101101100101010101001101011" +
		"011010011010101011001101010101001011011011010010110101011001011010100101101101"
	if d, err := DecodeCode39Raw(bitsOf(c39)); err != nil || d != "ABCDEFGHIJKLMNOPQRSTUVWXYZ0123456789" {
		return fmt.Errorf("Code 39 reference symbol decodes to %q, %v", d, err)
	}
	c93 := "1010111101101010001101001001101000101100101001100100101100010101011010001011001" +
		"001011000101001101001000110101010110001010011001010001101001011001000101101101101001" +
		"101100101101011001101001101100101101100110101011011001011001101001101101001110101000" +
		"101001010010001010001001010000101001010001001001001001000101010100001000100101000010" +
		"101001110101010000101010111101"
	if v, err := DecodeCode93Raw(bitsOf(c93)); err != nil || len(v) != 38 || v[0] != 10 || v[35] != 9 ||
		v[36] != Code93Check(v[:36], 20) || v[37] != Code93Check(v[:37], 15) {
		return fmt.Errorf("Code 93 reference symbol decodes to %v, %v", v, err)
	}
	if Code93Check([]int{29, 14, 28, 29, 9, 3}, 20) != 41 || Code93Check([]int{29, 14, 28, 29, 9, 3, 41}, 15) != 6 {
		return errors.New("Code 93 check characters of TEST93 are not + and 6")
	}
	return nil
}
