package ref

import "testing"

func TestSelf1D(t *testing.T) {
	if err := SelfTest1D(); err != nil {
		t.Fatal(err)
	}
}

func TestSelfQR(t *testing.T) {
	if err := SelfTestQR(); err != nil {
		t.Fatal(err)
	}
}

func TestSelfDM(t *testing.T) {
	if err := SelfTestDM(); err != nil {
		t.Fatal(err)
	}
}

func TestSelfPDF417(t *testing.T) {
	if err := SelfTestPDF417(); err != nil {
		t.Fatal(err)
	}
}

func TestSelfAztec(t *testing.T) {
	if err := SelfTestAztec(); err != nil {
		t.Fatal(err)
	}
}
