package ref

import "testing"

func TestSelf1D(t *testing.T) {
	if err := SelfTest1D(); err != nil {
		t.Fatal(err)
	}
}
