package ref

// Two Aztec symbols taken from the ZXing test-suite (via the expected pictures of the library's own
// tests, used here as data): a compact 3-layer and a full-range 6-layer symbol.

const aztecPicture1 = "" +
	"X     X X       X     X X     X     X         \n" +
	"X         X     X X     X   X X   X X       X \n" +
	"X X   X X X X X   X X X                 X     \n" +
	"X X                 X X   X       X X X X X X \n" +
	"    X X X   X   X     X X X X         X X     \n" +
	"  X X X   X X X X   X     X   X     X X   X   \n" +
	"        X X X X X     X X X X   X   X     X   \n" +
	"X       X   X X X X X X X X X X X     X   X X \n" +
	"X   X     X X X               X X X X   X X   \n" +
	"X     X X   X X   X X X X X   X X   X   X X X \n" +
	"X   X         X   X       X   X X X X       X \n" +
	"X       X     X   X   X   X   X   X X   X     \n" +
	"      X   X X X   X       X   X     X X X     \n" +
	"    X X X X X X   X X X X X   X X X X X X   X \n" +
	"  X X   X   X X               X X X   X X X X \n" +
	"  X   X       X X X X X X X X X X X X   X X   \n" +
	"  X X   X       X X X   X X X       X X       \n" +
	"  X               X   X X     X     X X X     \n" +
	"  X   X X X   X X   X   X X X X   X   X X X X \n" +
	"    X   X   X X X   X   X   X X X X     X     \n" +
	"        X               X                 X   \n" +
	"        X X     X   X X   X   X   X       X X \n" +
	"  X   X   X X       X   X         X X X     X \n"

const aztecPicture2 = "" +
	"        X X     X X     X     X     X   X X X         X   X         X   X X       \n" +
	"  X       X X     X   X X   X X       X             X     X   X X   X           X \n" +
	"  X   X X X     X   X   X X     X X X   X   X X               X X       X X     X \n" +
	"X X X             X   X         X         X     X     X   X     X X       X   X   \n" +
	"X   X   X   X   X   X   X   X   X   X   X   X   X   X   X   X   X   X   X   X   X \n" +
	"    X X   X   X   X X X               X       X       X X     X X   X X       X   \n" +
	"X X     X       X       X X X X   X   X X       X   X X   X       X X   X X   X   \n" +
	"  X       X   X     X X   X   X X   X X   X X X X X X   X X           X   X   X X \n" +
	"X X   X X   X   X X X X   X X X X X X X X   X   X       X X   X X X X   X X X     \n" +
	"  X       X   X     X       X X     X X   X   X   X     X X   X X X   X     X X X \n" +
	"  X   X X X   X X       X X X         X X           X   X   X   X X X   X X     X \n" +
	"    X     X   X X     X X X X     X   X     X X X X   X X   X X   X X X     X   X \n" +
	"X X X   X             X         X X X X X   X   X X   X   X   X X   X   X   X   X \n" +
	"          X       X X X   X X     X   X           X   X X X X   X X               \n" +
	"  X     X X   X   X       X X X X X X X X X X X X X X X   X   X X   X   X X X     \n" +
	"    X X                 X   X                       X X   X       X         X X X \n" +
	"        X   X X   X X X X X X   X X X X X X X X X   X     X X           X X X X   \n" +
	"          X X X   X     X   X   X               X   X X     X X X   X X           \n" +
	"X X     X     X   X   X   X X   X   X X X X X   X   X X X X X X X       X   X X X \n" +
	"X X X X       X       X   X X   X   X       X   X   X     X X X     X X       X X \n" +
	"X   X   X   X   X   X   X   X   X   X   X   X   X   X   X   X   X   X   X   X   X \n" +
	"    X     X       X         X   X   X       X   X   X     X   X X                 \n" +
	"        X X     X X X X X   X   X   X X X X X   X   X X X     X X X X   X         \n" +
	"X     X   X   X         X   X   X               X   X X   X X   X X X     X   X   \n" +
	"  X   X X X   X   X X   X X X   X X X X X X X X X   X X         X X     X X X X   \n" +
	"    X X   X   X   X X X     X                       X X X   X X   X   X     X     \n" +
	"    X X X X   X         X   X X X X X X X X X X X X X X   X       X X   X X   X X \n" +
	"            X   X   X X       X X X X X     X X X       X       X X X         X   \n" +
	"X       X         X   X X X X   X     X X     X X     X X           X   X       X \n" +
	"X     X       X X X X X     X   X X X X   X X X     X       X X X X   X   X X   X \n" +
	"  X X X X X               X     X X X   X       X X   X X   X X X X     X X       \n" +
	"X             X         X   X X   X X     X     X     X   X   X X X X             \n" +
	"    X   X X       X     X       X   X X X X X X   X X   X X X X X X X X X   X   X \n" +
	"    X         X X   X       X     X   X   X       X     X X X     X       X X X X \n" +
	"X     X X     X X X X X X             X X X   X               X   X     X     X X \n" +
	"X   X X     X               X X X X X     X X     X X X X X X X X     X   X   X X \n" +
	"X   X   X   X   X   X   X   X   X   X   X   X   X   X   X   X   X   X   X   X   X \n" +
	"X           X     X X X X     X     X         X         X   X       X X   X X X   \n" +
	"X   X   X X   X X X   X         X X     X X X X     X X   X   X     X   X       X \n" +
	"      X     X     X     X X     X   X X   X X   X         X X       X       X   X \n" +
	"X       X           X   X   X     X X   X               X     X     X X X         \n"
