package ref

// Reference QR Code reader (ISO/IEC 18004:2015, model 2), written from the standard.
// It works on an ideal module matrix and is deliberately strict: every function module is
// verified, both copies of format/version information must be identical and BCH-valid, every
// Reed-Solomon block must have zero syndromes, terminator and pad codewords must conform.

import (
	"errors"
	"fmt"
)

type QRSegment struct {
	Mode  string // "numeric", "alnum", "byte"
	Count int
	Data  []byte
}

type QRResult struct {
	Version    int
	Level      int // 0=L 1=M 2=Q 3=H
	Mask       int
	Segments   []QRSegment
	Content    []byte
	DataWords  int
	ECCPerBlk  int
	NumBlocks  int
	PadWords   int // number of 0xEC/0x11 pad codewords
	TermBits   int // length of the terminator actually present (0..4)
	Codewords  []byte
	Remainder  int
	DataStream []byte
}

const qrAlnum = "0123456789ABCDEFGHIJKLMNOPQRSTUVWXYZ $%*+-./:"

var qrGF = GF2{Poly: 0x11D, Size: 256}

// QRTotalCodewords: number of codewords of a version, from the module count formula.
func QRTotalCodewords(v int) int {
	n := 17 + 4*v
	fn := 3*64 + 2*(n-16) + 1 + 2*15
	if v >= 2 {
		k := v/7 + 2
		fn += (k*k-3)*25 - 2*(k-2)*5
	}
	if v >= 7 {
		fn += 36
	}
	return (n*n - fn) / 8
}

func QRRemainderBits(v int) int {
	n := 17 + 4*v
	fn := 3*64 + 2*(n-16) + 1 + 2*15
	if v >= 2 {
		k := v/7 + 2
		fn += (k*k-3)*25 - 2*(k-2)*5
	}
	if v >= 7 {
		fn += 36
	}
	return (n*n - fn) % 8
}

// QRDataCodewords: data capacity in codewords of (version, level).
func QRDataCodewords(v, level int) int {
	n := 0
	for _, g := range QRBlocks[v-1][level] {
		n += g.Count * g.Data
	}
	return n
}

// QRCharCountBits: width of the character count indicator. mode: 1 numeric, 2 alnum, 4 byte.
func QRCharCountBits(v, mode int) int {
	cls := 0
	if v >= 10 {
		cls = 1
	}
	if v >= 27 {
		cls = 2
	}
	switch mode {
	case 1:
		return [3]int{10, 12, 14}[cls]
	case 2:
		return [3]int{9, 11, 13}[cls]
	case 4:
		return [3]int{8, 16, 16}[cls]
	}
	return 0
}

// QRDataBits: number of data bits of n characters in a mode.
func QRDataBits(mode, n int) int {
	switch mode {
	case 1:
		return 10*(n/3) + [3]int{0, 4, 7}[n%3]
	case 2:
		return 11*(n/2) + 6*(n%2)
	case 4:
		return 8 * n
	}
	return 0
}

// QRMinVersion: the smallest version whose capacity at level holds n characters in mode
// (a single segment); 0 if none.
func QRMinVersion(level, mode, n int) int {
	for v := 1; v <= 40; v++ {
		if 4+QRCharCountBits(v, mode)+QRDataBits(mode, n) <= 8*QRDataCodewords(v, level) {
			return v
		}
	}
	return 0
}

func bchRemainder(value uint32, gen uint32, genBits, totalBits int) uint32 {
	for i := totalBits - 1; i >= genBits-1; i-- {
		if value&(1<<uint(i)) != 0 {
			value ^= gen << uint(i-(genBits-1))
		}
	}
	return value
}

// QRFormatWord: the 15-bit format information for (level, mask), computed.
func QRFormatWord(level, mask int) uint32 {
	ec := [4]uint32{1, 0, 3, 2}[level]
	d := (ec<<3 | uint32(mask)) << 10
	return (d | bchRemainder(d, 0x537, 11, 15)) ^ 0x5412
}

// QRVersionWord: the 18-bit version information, computed.
func QRVersionWord(v int) uint32 {
	d := uint32(v) << 12
	return d | bchRemainder(d, 0x1F25, 13, 18)
}

func qrMaskBit(mask, i, j int) bool { // i = row, j = column
	switch mask {
	case 0:
		return (i+j)%2 == 0
	case 1:
		return i%2 == 0
	case 2:
		return j%3 == 0
	case 3:
		return (i+j)%3 == 0
	case 4:
		return (i/2+j/3)%2 == 0
	case 5:
		return (i*j)%2+(i*j)%3 == 0
	case 6:
		return ((i*j)%2+(i*j)%3)%2 == 0
	default:
		return ((i+j)%2+(i*j)%3)%2 == 0
	}
}

// DecodeQR reads a module matrix m[y][x] (true = dark).
func DecodeQR(m [][]bool) (*QRResult, error) {
	n := len(m)
	if n < 21 || (n-17)%4 != 0 || (n-17)/4 > 40 {
		return nil, fmt.Errorf("size %d is not 17+4v", n)
	}
	for _, row := range m {
		if len(row) != n {
			return nil, errors.New("matrix is not square")
		}
	}
	v := (n - 17) / 4
	fn := make([][]bool, n) // function module map
	for i := range fn {
		fn[i] = make([]bool, n)
	}
	at := func(x, y int) bool { return m[y][x] }
	// finder patterns with separators
	for _, o := range [][2]int{{0, 0}, {n - 7, 0}, {0, n - 7}} {
		for dy := -1; dy <= 7; dy++ {
			for dx := -1; dx <= 7; dx++ {
				x, y := o[0]+dx, o[1]+dy
				if x < 0 || y < 0 || x >= n || y >= n {
					continue
				}
				fn[y][x] = true
				inside := dx >= 0 && dx <= 6 && dy >= 0 && dy <= 6
				want := inside && (dx == 0 || dx == 6 || dy == 0 || dy == 6 || (dx >= 2 && dx <= 4 && dy >= 2 && dy <= 4))
				if at(x, y) != want {
					return nil, fmt.Errorf("finder/separator module (%d,%d) is %v", x, y, at(x, y))
				}
			}
		}
	}
	// alignment patterns
	pos := QRAlignment[v-1]
	for _, cy := range pos {
		for _, cx := range pos {
			if (cx == 6 && cy == 6) || (cx == 6 && cy == n-7) || (cx == n-7 && cy == 6) {
				continue
			}
			for dy := -2; dy <= 2; dy++ {
				for dx := -2; dx <= 2; dx++ {
					x, y := cx+dx, cy+dy
					fn[y][x] = true
					want := dx == -2 || dx == 2 || dy == -2 || dy == 2 || (dx == 0 && dy == 0)
					if at(x, y) != want {
						return nil, fmt.Errorf("alignment pattern at (%d,%d): module (%d,%d) is %v", cx, cy, x, y, at(x, y))
					}
				}
			}
		}
	}
	// timing patterns
	for i := 8; i < n-8; i++ {
		for _, p := range [][2]int{{i, 6}, {6, i}} {
			x, y := p[0], p[1]
			if !fn[y][x] && at(x, y) != (i%2 == 0) {
				return nil, fmt.Errorf("timing module (%d,%d) is %v", x, y, at(x, y))
			}
			fn[y][x] = true
		}
	}
	// dark module
	if !at(8, n-8) {
		return nil, errors.New("dark module (8, 4v+9) is light")
	}
	fn[n-8][8] = true
	// format information, two copies, MSB first
	var c1, c2 [][2]int
	for x := 0; x <= 5; x++ {
		c1 = append(c1, [2]int{x, 8})
	}
	c1 = append(c1, [2]int{7, 8}, [2]int{8, 8}, [2]int{8, 7})
	for y := 5; y >= 0; y-- {
		c1 = append(c1, [2]int{8, y})
	}
	for y := n - 1; y >= n-7; y-- {
		c2 = append(c2, [2]int{8, y})
	}
	for x := n - 8; x <= n-1; x++ {
		c2 = append(c2, [2]int{x, 8})
	}
	read := func(ps [][2]int) uint32 {
		var w uint32
		for _, p := range ps {
			w <<= 1
			if at(p[0], p[1]) {
				w |= 1
			}
			fn[p[1]][p[0]] = true
		}
		return w
	}
	f1, f2 := read(c1), read(c2)
	if f1 != f2 {
		return nil, fmt.Errorf("the two format information copies differ: %015b / %015b", f1, f2)
	}
	fw := f1 ^ 0x5412
	if bchRemainder(fw, 0x537, 11, 15) != 0 {
		return nil, fmt.Errorf("format information %015b is not a BCH(15,5) codeword", f1)
	}
	level := [4]int{1, 0, 3, 2}[fw>>13]
	mask := int(fw>>10) & 7
	if QRFormatWord(level, mask) != f1 {
		return nil, errors.New("internal: format word recomputation differs")
	}
	// version information
	if v >= 7 {
		var v1, v2 uint32
		for i := 17; i >= 0; i-- {
			xa, ya := n-11+i%3, i/3 // top right block
			xb, yb := i/3, n-11+i%3 // bottom left block
			v1 <<= 1
			v2 <<= 1
			if at(xa, ya) {
				v1 |= 1
			}
			if at(xb, yb) {
				v2 |= 1
			}
			fn[ya][xa] = true
			fn[yb][xb] = true
		}
		if v1 != v2 {
			return nil, fmt.Errorf("the two version information copies differ: %018b / %018b", v1, v2)
		}
		if bchRemainder(v1, 0x1F25, 13, 18) != 0 {
			return nil, fmt.Errorf("version information %018b is not a (18,6) Golay codeword", v1)
		}
		if int(v1>>12) != v {
			return nil, fmt.Errorf("version information says %d, the symbol size says %d", v1>>12, v)
		}
	}
	// zig-zag read of the encoding region, unmasking on the fly
	total := QRTotalCodewords(v)
	var bits []bool
	up := true
	for right := n - 1; right >= 1; right -= 2 {
		if right == 6 {
			right = 5
		}
		for k := 0; k < n; k++ {
			y := k
			if up {
				y = n - 1 - k
			}
			for _, x := range []int{right, right - 1} {
				if fn[y][x] {
					continue
				}
				bits = append(bits, at(x, y) != qrMaskBit(mask, y, x))
			}
		}
		up = !up
	}
	rem := QRRemainderBits(v)
	if len(bits) != total*8+rem {
		return nil, fmt.Errorf("encoding region has %d modules, expected %d", len(bits), total*8+rem)
	}
	for i := total * 8; i < len(bits); i++ {
		if bits[i] {
			return nil, fmt.Errorf("remainder bit %d is 1 before masking", i-total*8)
		}
	}
	cw := make([]byte, total)
	for i := 0; i < total*8; i++ {
		if bits[i] {
			cw[i/8] |= 0x80 >> uint(i%8)
		}
	}
	// de-interleave
	type blk struct{ data, ecc []byte }
	var blocks []*blk
	sum := 0
	eccLen := -1
	for _, g := range QRBlocks[v-1][level] {
		for i := 0; i < g.Count; i++ {
			blocks = append(blocks, &blk{data: make([]byte, 0, g.Data), ecc: make([]byte, 0, g.Total-g.Data)})
			sum += g.Total
		}
		if eccLen >= 0 && eccLen != g.Total-g.Data {
			return nil, errors.New("internal: reference table has unequal EC lengths within a version")
		}
		eccLen = g.Total - g.Data
	}
	if sum != total {
		return nil, fmt.Errorf("internal: block table sums to %d, version has %d codewords", sum, total)
	}
	p := 0
	caps := make([]int, len(blocks))
	{
		i := 0
		for _, g := range QRBlocks[v-1][level] {
			for k := 0; k < g.Count; k++ {
				caps[i] = g.Data
				i++
			}
		}
	}
	maxData := caps[len(caps)-1]
	for i := 0; i < maxData; i++ {
		for b, bl := range blocks {
			if i < caps[b] {
				bl.data = append(bl.data, cw[p])
				p++
			}
		}
	}
	for i := 0; i < eccLen; i++ {
		for _, bl := range blocks {
			bl.ecc = append(bl.ecc, cw[p])
			p++
		}
	}
	var stream []byte
	for bi, bl := range blocks {
		c := make([]int, 0, len(bl.data)+len(bl.ecc))
		for _, x := range bl.data {
			c = append(c, int(x))
		}
		for _, x := range bl.ecc {
			c = append(c, int(x))
		}
		if syn := qrGF.Syndromes(c, eccLen, 0); !AllZero(syn) {
			return nil, fmt.Errorf("Reed-Solomon block %d of %d (version %d-%s, %d+%d codewords) is not a valid codeword", bi, len(blocks), v, "LMQH"[level:level+1], len(bl.data), eccLen)
		}
		stream = append(stream, bl.data...)
	}
	res := &QRResult{Version: v, Level: level, Mask: mask, DataWords: len(stream), ECCPerBlk: eccLen, NumBlocks: len(blocks), Codewords: cw, Remainder: rem, DataStream: stream}
	// parse segments
	nbits := len(stream) * 8
	pos2 := 0
	get := func(k int) (int, bool) {
		if pos2+k > nbits {
			return 0, false
		}
		val := 0
		for i := 0; i < k; i++ {
			val <<= 1
			if stream[(pos2+i)/8]&(0x80>>uint((pos2+i)%8)) != 0 {
				val |= 1
			}
		}
		pos2 += k
		return val, true
	}
	for {
		if nbits-pos2 < 4 {
			// too short for a mode indicator: a shortened terminator, must be zero
			res.TermBits = nbits - pos2
			if val, _ := get(nbits - pos2); val != 0 {
				return nil, errors.New("bits after the last segment are not zero")
			}
			break
		}
		mode, _ := get(4)
		if mode == 0 {
			res.TermBits = 4
			break
		}
		var seg QRSegment
		switch mode {
		case 1:
			seg.Mode = "numeric"
		case 2:
			seg.Mode = "alnum"
		case 4:
			seg.Mode = "byte"
		default:
			return nil, fmt.Errorf("mode indicator %04b not expected from this encoder", mode)
		}
		cnt, ok := get(QRCharCountBits(v, mode))
		if !ok {
			return nil, errors.New("character count indicator runs past the data")
		}
		seg.Count = cnt
		switch mode {
		case 1:
			for left := cnt; left > 0; {
				k, w, lim := 3, 10, 999
				if left == 2 {
					k, w, lim = 2, 7, 99
				} else if left == 1 {
					k, w, lim = 1, 4, 9
				}
				val, ok := get(w)
				if !ok {
					return nil, errors.New("numeric segment runs past the data")
				}
				if val > lim {
					return nil, fmt.Errorf("numeric group value %d exceeds %d", val, lim)
				}
				s := fmt.Sprintf("%0*d", k, val)
				seg.Data = append(seg.Data, s...)
				left -= k
			}
		case 2:
			for left := cnt; left > 0; {
				if left >= 2 {
					val, ok := get(11)
					if !ok {
						return nil, errors.New("alphanumeric segment runs past the data")
					}
					if val >= 45*45 {
						return nil, fmt.Errorf("alphanumeric pair value %d out of range", val)
					}
					seg.Data = append(seg.Data, qrAlnum[val/45], qrAlnum[val%45])
					left -= 2
				} else {
					val, ok := get(6)
					if !ok {
						return nil, errors.New("alphanumeric segment runs past the data")
					}
					if val >= 45 {
						return nil, fmt.Errorf("alphanumeric value %d out of range", val)
					}
					seg.Data = append(seg.Data, qrAlnum[val])
					left--
				}
			}
		case 4:
			for i := 0; i < cnt; i++ {
				val, ok := get(8)
				if !ok {
					return nil, errors.New("byte segment runs past the data")
				}
				seg.Data = append(seg.Data, byte(val))
			}
		}
		res.Segments = append(res.Segments, seg)
		res.Content = append(res.Content, seg.Data...)
	}
	// after the terminator: zero bits up to the codeword boundary, then EC 11 EC 11 ...
	for pos2%8 != 0 {
		if b, _ := get(1); b != 0 {
			return nil, errors.New("non-zero bit between terminator and codeword boundary")
		}
	}
	for i := 0; pos2 < nbits; i++ {
		b, _ := get(8)
		want := 0xEC
		if i%2 == 1 {
			want = 0x11
		}
		if b != want {
			return nil, fmt.Errorf("pad codeword %d is %#02x, want %#02x", i, b, want)
		}
		res.PadWords++
	}
	return res, nil
}

// SelfTestQR validates the frozen tables and the decoder against known-good data.
func SelfTestQR() error {
	for v := 1; v <= 40; v++ {
		for l := 0; l < 4; l++ {
			sum, ecc := 0, -1
			for _, g := range QRBlocks[v-1][l] {
				sum += g.Count * g.Total
				if ecc >= 0 && ecc != g.Total-g.Data {
					return fmt.Errorf("QR %d-%d: unequal EC length", v, l)
				}
				ecc = g.Total - g.Data
			}
			if sum != QRTotalCodewords(v) {
				return fmt.Errorf("QR block table %d-%d sums to %d, formula says %d", v, l, sum, QRTotalCodewords(v))
			}
			if l > 0 && QRDataCodewords(v, l) >= QRDataCodewords(v, l-1) {
				return fmt.Errorf("QR capacity not decreasing with level at version %d", v)
			}
		}
		// alignment positions: closed formula cross-check of the literal list
		a := QRAlignment[v-1]
		if v == 1 {
			if len(a) != 0 {
				return errors.New("version 1 has alignment patterns")
			}
			continue
		}
		k := v/7 + 2
		if len(a) != k || a[0] != 6 || a[k-1] != 4*v+10 {
			return fmt.Errorf("alignment list of version %d: %v", v, a)
		}
		step := 0
		if k > 2 {
			step = (v*4 + k*2 + 1) / (k*2 - 2) * 2 // closed form of the ISO spacing rule
			if v == 32 {
				step = 26
			}
			for i := k - 1; i >= 2; i-- {
				if a[i]-a[i-1] != step {
					return fmt.Errorf("alignment list of version %d: %v does not step by %d", v, a, step)
				}
			}
		}
	}
	// spot values known from the standard
	if QRTotalCodewords(1) != 26 || QRTotalCodewords(7) != 196 || QRTotalCodewords(40) != 3706 || QRRemainderBits(2) != 7 || QRRemainderBits(14) != 3 || QRRemainderBits(21) != 4 || QRRemainderBits(7) != 0 {
		return errors.New("QR codeword totals / remainder bits spot values")
	}
	if QRFormatWord(1, 5) != 0b100000011001110 || QRFormatWord(0, 0) != 0b111011111000100 || QRFormatWord(3, 7) != 0b000100000111011 {
		return errors.New("QR format words spot values")
	}
	if QRVersionWord(7) != 0x07C94 || QRVersionWord(40) != 0x28C69 {
		return errors.New("QR version words spot values")
	}
	if QRMinVersion(0, 1, 7089) != 40 || QRMinVersion(0, 1, 7090) != 0 || QRMinVersion(3, 4, 1273) != 40 || QRMinVersion(3, 4, 1274) != 0 ||
		QRMinVersion(1, 2, 3391) != 40 || QRMinVersion(1, 2, 3392) != 0 || QRMinVersion(0, 4, 17) != 1 || QRMinVersion(0, 4, 18) != 2 || QRMinVersion(2, 1, 27) != 1 {
		return errors.New("QR capacities spot values (7089 / 1273 / 3391 / 17)")
	}
	// 80 symbols of an unrelated encoder: every version, all levels, all masks
	for _, f := range qrFixtures {
		n := 17 + 4*f.Version
		m := make([][]bool, n)
		for y, hexrow := range f.Rows {
			m[y] = make([]bool, n)
			for x := 0; x < n; x++ {
				c := hexrow[x/4]
				var v byte
				switch {
				case c >= '0' && c <= '9':
					v = c - '0'
				default:
					v = c - 'a' + 10
				}
				m[y][x] = v&(8>>uint(x%4)) != 0
			}
		}
		r, err := DecodeQR(m)
		if err != nil || string(r.Content) != f.Text || r.Version != f.Version || r.Level != f.Level || r.Mask != f.Mask {
			return fmt.Errorf("fixture version %d level %d mask %d: decoded %v, %v", f.Version, f.Level, f.Mask, r != nil && string(r.Content) == f.Text, err)
		}
	}
	// externally sourced picture: "hello world", 2-H, byte mode (expected symbol of the library's test-suite, parsed as data)
	r, err := DecodeQR(ParsePicture(qrHelloWorld, '+'))
	if err != nil || string(r.Content) != "hello world" || r.Version != 2 || r.Level != 3 {
		return fmt.Errorf("reference picture decodes to %+v, %v", r, err)
	}
	return nil
}

// ParsePicture turns an ASCII-art symbol into a matrix; dark marks a dark module, every other
// non-space character a light one; lines are rows.
func ParsePicture(s string, dark rune) [][]bool {
	var out [][]bool
	var row []bool
	for _, c := range s {
		switch {
		case c == '\n':
			if len(row) > 0 {
				out = append(out, row)
				row = nil
			}
		case c == ' ' || c == '\t' || c == '\r':
		default:
			row = append(row, c == dark)
		}
	}
	if len(row) > 0 {
		out = append(out, row)
	}
	return out
}

const qrHelloWorld = `
+++++++.+.+.+...+.+++++++
+.....+.++...+++..+.....+
+.+++.+.+.+.++.++.+.+++.+
+.+++.+....++.++..+.+++.+
+.+++.+..+...++.+.+.+++.+
+.....+.+..+..+++.+.....+
+++++++.+.+.+.+.+.+++++++
........++..+..+.........
..+++.+.+++.+.++++++..+++
+++..+..+...++.+...+..+..
+...+.++++....++.+..++.++
++.+.+.++...+...+.+....++
..+..+++.+.+++++.++++++++
+.+++...+..++..++..+..+..
+.....+..+.+.....+++++.++
+.+++.....+...+.+.+++...+
+.+..+++...++.+.+++++++..
........+....++.+...+.+..
+++++++......++++.+.+.+++
+.....+....+...++...++.+.
+.+++.+.+.+...+++++++++..
+.+++.+.++...++...+.++..+
+.+++.+.++.+++++..++.+..+
+.....+..+++..++.+.++...+
+++++++....+..+.+..+..+++`
