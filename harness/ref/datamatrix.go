package ref

// Reference Data Matrix ECC 200 reader for square symbols (ISO/IEC 16022), ASCII encodation.

import (
	"errors"
	"fmt"
)

// DMSize: one row of the ECC 200 square symbol table (ISO/IEC 16022 table 7).
type DMSize struct {
	N       int // symbol size in modules
	Regions int // data regions per side
	Data    int // data codewords
	ECC     int // error correction codewords
	Blocks  int // interleaved RS blocks
}

var DMSizes = []DMSize{
	{10, 1, 3, 5, 1}, {12, 1, 5, 7, 1}, {14, 1, 8, 10, 1}, {16, 1, 12, 12, 1}, {18, 1, 18, 14, 1}, {20, 1, 22, 18, 1},
	{22, 1, 30, 20, 1}, {24, 1, 36, 24, 1}, {26, 1, 44, 28, 1}, {32, 2, 62, 36, 1}, {36, 2, 86, 42, 1}, {40, 2, 114, 48, 1},
	{44, 2, 144, 56, 1}, {48, 2, 174, 68, 1}, {52, 2, 204, 84, 2}, {64, 4, 280, 112, 2}, {72, 4, 368, 144, 4}, {80, 4, 456, 192, 4},
	{88, 4, 576, 224, 4}, {96, 4, 696, 272, 4}, {104, 4, 816, 336, 6}, {120, 6, 1050, 408, 6}, {132, 6, 1304, 496, 8}, {144, 6, 1558, 620, 10},
}

var dmGF = GF2{Poly: 0x12D, Size: 256}

type DMResult struct {
	Size       DMSize
	SizeIndex  int
	Codewords  []byte // data + ecc in stream order
	Content    []byte
	Pads       int
	UpperShift int
	DigitPairs int
	Corner     int  // which special corner placement the symbol size triggers (0 none, 1..4)
	FixedPat   bool // the lower-right 2x2 fixed pattern is present
}

// DMAsciiCodewords: number of ASCII-encodation codewords a byte string needs when every pair
// of adjacent digits (scanning left to right) is packed into one codeword and bytes >= 128 use
// an upper shift.
func DMAsciiCodewords(s []byte) int {
	n := 0
	for i := 0; i < len(s); i++ {
		c := s[i]
		switch {
		case c >= '0' && c <= '9' && i+1 < len(s) && s[i+1] >= '0' && s[i+1] <= '9':
			i++
			n++
		case c >= 128:
			n += 2
		default:
			n++
		}
	}
	return n
}

// DMSizeFor: index of the smallest square symbol with at least cw data codewords (-1 if none).
func DMSizeFor(cw int) int {
	for i, s := range DMSizes {
		if s.Data >= cw {
			return i
		}
	}
	return -1
}

// dmPlacement returns, for an nrow x ncol mapping matrix, cell[r][c] = codeword*8+bit (bit 0 =
// most significant) or -1 for the cells of the fixed pattern; corner = special corner used.
// Written after ISO/IEC 16022 annex F.
func dmPlacement(nrow, ncol int) (cell [][]int, corner int, fixed bool) {
	cell = make([][]int, nrow)
	for r := range cell {
		cell[r] = make([]int, ncol)
		for c := range cell[r] {
			cell[r][c] = -2
		}
	}
	put := func(r, c, cw, bit int) {
		if r < 0 {
			r += nrow
			c += 4 - (nrow+4)%8
		}
		if c < 0 {
			c += ncol
			r += 4 - (ncol+4)%8
		}
		cell[r][c] = cw*8 + bit
	}
	utah := func(r, c, cw int) {
		put(r-2, c-2, cw, 0)
		put(r-2, c-1, cw, 1)
		put(r-1, c-2, cw, 2)
		put(r-1, c-1, cw, 3)
		put(r-1, c, cw, 4)
		put(r, c-2, cw, 5)
		put(r, c-1, cw, 6)
		put(r, c, cw, 7)
	}
	special := func(cw int, pts [8][2]int) {
		for b, p := range pts {
			put(p[0], p[1], cw, b)
		}
	}
	cw := 0
	r, c := 4, 0
	for {
		if r == nrow && c == 0 {
			special(cw, [8][2]int{{nrow - 1, 0}, {nrow - 1, 1}, {nrow - 1, 2}, {0, ncol - 2}, {0, ncol - 1}, {1, ncol - 1}, {2, ncol - 1}, {3, ncol - 1}})
			cw++
			corner = 1
		}
		if r == nrow-2 && c == 0 && ncol%4 != 0 {
			special(cw, [8][2]int{{nrow - 3, 0}, {nrow - 2, 0}, {nrow - 1, 0}, {0, ncol - 4}, {0, ncol - 3}, {0, ncol - 2}, {0, ncol - 1}, {1, ncol - 1}})
			cw++
			corner = 2
		}
		if r == nrow-2 && c == 0 && ncol%8 == 4 {
			special(cw, [8][2]int{{nrow - 3, 0}, {nrow - 2, 0}, {nrow - 1, 0}, {0, ncol - 2}, {0, ncol - 1}, {1, ncol - 1}, {2, ncol - 1}, {3, ncol - 1}})
			cw++
			corner = 3
		}
		if r == nrow+4 && c == 2 && ncol%8 == 0 {
			special(cw, [8][2]int{{nrow - 1, 0}, {nrow - 1, ncol - 1}, {0, ncol - 3}, {0, ncol - 2}, {0, ncol - 1}, {1, ncol - 3}, {1, ncol - 2}, {1, ncol - 1}})
			cw++
			corner = 4
		}
		// sweep upward to the right
		for {
			if r < nrow && c >= 0 && cell[r][c] == -2 {
				utah(r, c, cw)
				cw++
			}
			r -= 2
			c += 2
			if !(r >= 0 && c < ncol) {
				break
			}
		}
		r++
		c += 3
		// sweep downward to the left
		for {
			if r >= 0 && c < ncol && cell[r][c] == -2 {
				utah(r, c, cw)
				cw++
			}
			r += 2
			c -= 2
			if !(r < nrow && c >= 0) {
				break
			}
		}
		r += 3
		c++
		if !(r < nrow || c < ncol) {
			break
		}
	}
	if cell[nrow-1][ncol-1] == -2 {
		fixed = true
		cell[nrow-1][ncol-1] = -1
		cell[nrow-2][ncol-2] = -1
		cell[nrow-1][ncol-2] = -3 // light
		cell[nrow-2][ncol-1] = -3
	}
	return
}

// DecodeDataMatrix reads a module matrix m[y][x] (true = dark).
func DecodeDataMatrix(m [][]bool) (*DMResult, error) {
	n := len(m)
	idx := -1
	for i, s := range DMSizes {
		if s.N == n {
			idx = i
		}
	}
	if idx < 0 {
		return nil, fmt.Errorf("size %d is not an ECC 200 square symbol size", n)
	}
	for _, row := range m {
		if len(row) != n {
			return nil, errors.New("matrix is not square")
		}
	}
	sz := DMSizes[idx]
	k := sz.Regions
	rs := n/k - 2 // region data size
	mapN := rs * k
	mp := make([][]bool, mapN)
	for i := range mp {
		mp[i] = make([]bool, mapN)
	}
	for ry := 0; ry < k; ry++ {
		for rx := 0; rx < k; rx++ {
			ox, oy := rx*(rs+2), ry*(rs+2)
			for i := 0; i < rs+2; i++ {
				// left column and bottom row solid
				if !m[oy+i][ox] {
					return nil, fmt.Errorf("region (%d,%d): left finder bar broken at row %d", rx, ry, i)
				}
				if !m[oy+rs+1][ox+i] {
					return nil, fmt.Errorf("region (%d,%d): bottom finder bar broken at column %d", rx, ry, i)
				}
				// top row alternating, dark first; right column alternating, dark at the bottom
				if m[oy][ox+i] != (i%2 == 0) {
					return nil, fmt.Errorf("region (%d,%d): top clock track wrong at column %d", rx, ry, i)
				}
				if m[oy+i][ox+rs+1] != (i%2 == 1) {
					return nil, fmt.Errorf("region (%d,%d): right clock track wrong at row %d", rx, ry, i)
				}
			}
			for y := 0; y < rs; y++ {
				for x := 0; x < rs; x++ {
					mp[ry*rs+y][rx*rs+x] = m[oy+1+y][ox+1+x]
				}
			}
		}
	}
	cell, corner, fixed := dmPlacement(mapN, mapN)
	total := sz.Data + sz.ECC
	cw := make([]byte, total)
	seen := make([]int, total)
	for r := 0; r < mapN; r++ {
		for c := 0; c < mapN; c++ {
			v := cell[r][c]
			switch {
			case v == -2:
				return nil, fmt.Errorf("internal: mapping cell (%d,%d) not covered by the placement", r, c)
			case v == -1:
				if !mp[r][c] {
					return nil, fmt.Errorf("fixed pattern module (%d,%d) of the lower right corner is light", r, c)
				}
			case v == -3:
				if mp[r][c] {
					return nil, fmt.Errorf("fixed pattern module (%d,%d) of the lower right corner is dark", r, c)
				}
			default:
				if v/8 >= total {
					return nil, fmt.Errorf("internal: placement produced codeword %d of %d", v/8, total)
				}
				seen[v/8]++
				if mp[r][c] {
					cw[v/8] |= 0x80 >> uint(v%8)
				}
			}
		}
	}
	for i, s := range seen {
		if s != 8 {
			return nil, fmt.Errorf("internal: codeword %d placed %d times", i, s)
		}
	}
	// de-interleave: codeword p of the stream belongs to block p mod B (data and check words alike)
	b := sz.Blocks
	blocks := make([][]int, b)
	for p, v := range cw {
		blocks[p%b] = append(blocks[p%b], int(v))
	}
	eccPer := sz.ECC / b
	for bi, blk := range blocks {
		if syn := dmGF.Syndromes(blk, eccPer, 1); !AllZero(syn) {
			return nil, fmt.Errorf("Reed-Solomon block %d of %d (%d codewords, %d check words) of the %dx%d symbol is not a valid codeword", bi, b, len(blk), eccPer, n, n)
		}
	}
	res := &DMResult{Size: sz, SizeIndex: idx, Codewords: cw, Corner: corner, FixedPat: fixed}
	data := cw[:sz.Data]
	for i := 0; i < len(data); i++ {
		v := int(data[i])
		switch {
		case v >= 1 && v <= 128:
			res.Content = append(res.Content, byte(v-1))
		case v == 129:
			// padding up to the end; following pads are randomised with the 253-state algorithm
			res.Pads = len(data) - i
			for j := i + 1; j < len(data); j++ {
				r := (149*(j+1))%253 + 1
				if data[j] == 0 || data[j] == 255 {
					return nil, fmt.Errorf("pad codeword at position %d is %d, outside 1..254", j+1, data[j])
				}
				un := int(data[j]) - r
				if un < 1 {
					un += 254
				}
				if un != 129 {
					return nil, fmt.Errorf("pad codeword at position %d is %d, which un-randomises to %d instead of 129", j+1, data[j], un)
				}
			}
			return res, nil
		case v >= 130 && v <= 229:
			d := v - 130
			res.Content = append(res.Content, byte('0'+d/10), byte('0'+d%10))
			res.DigitPairs++
		case v == 235:
			if i+1 >= len(data) {
				return nil, errors.New("upper shift at the end of the data")
			}
			i++
			w := int(data[i])
			if w < 1 || w > 128 {
				return nil, fmt.Errorf("upper shift followed by codeword %d", w)
			}
			res.Content = append(res.Content, byte(w-1+128))
			res.UpperShift++
		default:
			return nil, fmt.Errorf("codeword %d at position %d is not ASCII encodation", v, i+1)
		}
	}
	return res, nil
}

const dmIssue12 = `
#.#.#.#.#.#.#.#.#.#.#.#.
#....###..#..#....#...##
##.......#...#.#.#....#.
#.###...##..#...##.##..#
##...####..##..#.#.#.##.
#.###.##.###..#######.##
#..###...##.##..#.##.##.
#.#.#.#.#.#.###....#.#.#
##.#...#.#.#..#...#####.
#...####..#...##..#.#..#
##...#...##.###.#.....#.
#.###.#.##.#.....###..##
##..#####...#..##...###.
###...#.####.##.#.#.#..#
#..###..#.#.####.#.###..
###.#.#..#..#.###.#.##.#
#####.##.###..#.####.#..
#.##.#......#.#..#.#.###
###.#....######.#...##..
##...#..##.###..#...####
#.######.###.##..#...##.
#..#..#.##.#..####...#.#
###.###..#..##.#.##...#.
########################`

// SelfTestDM validates the size table and decodes an externally sourced symbol.
func SelfTestDM() error {
	for i, s := range DMSizes {
		mapN := s.N - 2*s.Regions
		if (mapN*mapN)/8 != s.Data+s.ECC {
			return fmt.Errorf("DataMatrix size %d: %d+%d codewords but the mapping matrix holds %d", s.N, s.Data, s.ECC, mapN*mapN/8)
		}
		if s.ECC%s.Blocks != 0 || (s.N/s.Regions)*s.Regions != s.N {
			return fmt.Errorf("DataMatrix size %d: inconsistent row", s.N)
		}
		if i > 0 && (s.Data <= DMSizes[i-1].Data || s.N <= DMSizes[i-1].N) {
			return fmt.Errorf("DataMatrix table not increasing at %d", s.N)
		}
		if s.N != 144 && s.Data%s.Blocks != 0 {
			return fmt.Errorf("DataMatrix size %d: data not divisible into blocks", s.N)
		}
		cell, _, _ := dmPlacement(mapN, mapN)
		cnt := map[int]int{}
		for _, row := range cell {
			for _, v := range row {
				if v >= 0 {
					cnt[v/8]++
				}
			}
		}
		if len(cnt) != s.Data+s.ECC {
			return fmt.Errorf("DataMatrix size %d: placement yields %d codewords, want %d", s.N, len(cnt), s.Data+s.ECC)
		}
	}
	if DMSizes[23].Data != 1558 || DMSizes[23].ECC != 620 || DMSizes[7].Data != 36 || DMSizes[7].ECC != 24 {
		return errors.New("DataMatrix table spot values")
	}
	r, err := DecodeDataMatrix(ParsePicture(dmIssue12, '#'))
	if err != nil || string(r.Content) != `{"po":12,"batchAction":"start_end"}` {
		return fmt.Errorf("DataMatrix reference picture decodes to %+v, %v", r, err)
	}
	return nil
}
