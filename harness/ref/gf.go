// Package ref holds the oracles: reference models and decoders written from the standards.
// Nothing in this package imports or transliterates code of the library under test.
package ref

// GF2 is schoolbook arithmetic in GF(2^m) = GF(2)[x]/(Poly): carry-less multiply and reduce.
// No log/antilog tables on purpose (the library uses them).
type GF2 struct {
	Poly int // primitive polynomial including the x^m term, e.g. 0x11D
	Size int // 2^m
}

func (f GF2) Mul(a, b int) int {
	r := 0
	for b > 0 {
		if b&1 == 1 {
			r ^= a
		}
		b >>= 1
		a <<= 1
		if a >= f.Size {
			a ^= f.Poly
		}
	}
	return r
}

// Pow returns a^e (e >= 0).
func (f GF2) Pow(a, e int) int {
	r := 1
	for i := 0; i < e; i++ {
		r = f.Mul(r, a)
	}
	return r
}

// Inv finds the inverse by search (a != 0).
func (f GF2) Inv(a int) int {
	for x := 1; x < f.Size; x++ {
		if f.Mul(a, x) == 1 {
			return x
		}
	}
	return -1
}

// Eval evaluates the polynomial with coefficients c (highest degree first) at x (Horner).
func (f GF2) Eval(c []int, x int) int {
	r := 0
	for _, v := range c {
		r = f.Mul(r, x) ^ v
	}
	return r
}

// PolyMul multiplies two polynomials (highest degree first).
func (f GF2) PolyMul(a, b []int) []int {
	if len(a) == 0 || len(b) == 0 {
		return nil
	}
	out := make([]int, len(a)+len(b)-1)
	for i, x := range a {
		for j, y := range b {
			out[i+j] ^= f.Mul(x, y)
		}
	}
	return out
}

// PolyAdd adds two polynomials (highest degree first).
func (f GF2) PolyAdd(a, b []int) []int {
	if len(a) < len(b) {
		a, b = b, a
	}
	out := append([]int(nil), a...)
	off := len(a) - len(b)
	for i, y := range b {
		out[off+i] ^= y
	}
	return out
}

// Norm strips leading zero coefficients; the zero polynomial is [0].
func Norm(c []int) []int {
	for len(c) > 1 && c[0] == 0 {
		c = c[1:]
	}
	if len(c) == 0 {
		return []int{0}
	}
	return c
}

// Generator returns prod_{i=0}^{n-1} (x - alpha^(base+i)), alpha = x = 2, highest degree first.
func (f GF2) Generator(n, base int) []int {
	g := []int{1}
	root := f.Pow(2, base)
	for i := 0; i < n; i++ {
		g = f.PolyMul(g, []int{1, root})
		root = f.Mul(root, 2)
	}
	return g
}

// RSRemainder computes the n check symbols of data (highest degree first) for the generator g
// (monic, degree n) with a shift register: remainder of data(x)*x^n divided by g(x).
func (f GF2) RSRemainder(data []int, g []int) []int {
	n := len(g) - 1
	reg := make([]int, n)
	for _, d := range data {
		fb := d ^ reg[0]
		copy(reg, reg[1:])
		reg[n-1] = 0
		if fb != 0 {
			for i := 0; i < n; i++ {
				reg[i] ^= f.Mul(fb, g[i+1])
			}
		}
	}
	return reg
}

// Syndromes evaluates the codeword at alpha^base .. alpha^(base+n-1).
func (f GF2) Syndromes(codeword []int, n, base int) []int {
	out := make([]int, n)
	root := f.Pow(2, base)
	for i := 0; i < n; i++ {
		out[i] = f.Eval(codeword, root)
		root = f.Mul(root, 2)
	}
	return out
}

// AllZero reports whether every element is zero.
func AllZero(v []int) bool {
	for _, x := range v {
		if x != 0 {
			return false
		}
	}
	return true
}
