package ref

// Reference Aztec Code reader (ISO/IEC 24778) for ideal module matrices.

import (
	"errors"
	"fmt"
)

type AztecResult struct {
	Compact    bool
	Layers     int
	WordSize   int
	DataWords  int // from the mode message
	CheckWords int
	TotalWords int
	TotalBits  int
	Content    []byte
	LastOutput int      // bit position just after the last item that produced output (a lower bound of the message length)
	UsedBits   int      // bits of the un-stuffed stream consumed up to the end of the last complete item
	StreamBits int      // length of the un-stuffed data bit stream
	Trans      []string // mode transitions seen, e.g. "U>L", "shift D>U", "B/S 1-30"
	Modes      map[string]bool
}

// AztecSize returns the symbol dimension for (compact, layers).
func AztecSize(compact bool, layers int) int {
	if compact {
		return 11 + 4*layers
	}
	base := 14 + 4*layers
	return base + 1 + 2*((base/2-1)/15)
}

// AztecTotalBits: bits in the data layers.
func AztecTotalBits(compact bool, layers int) int {
	if compact {
		return (88 + 16*layers) * layers
	}
	return (112 + 16*layers) * layers
}

// AztecWordSize: codeword size for a layer count.
func AztecWordSize(layers int) int {
	switch {
	case layers <= 2:
		return 6
	case layers <= 8:
		return 8
	case layers <= 22:
		return 10
	}
	return 12
}

func aztecGF(w int) GF2 {
	switch w {
	case 4:
		return GF2{Poly: 0x13, Size: 16}
	case 6:
		return GF2{Poly: 0x43, Size: 64}
	case 8:
		return GF2{Poly: 0x12D, Size: 256}
	case 10:
		return GF2{Poly: 0x409, Size: 1024}
	}
	return GF2{Poly: 0x1069, Size: 4096}
}

var (
	aztecUpper = []string{"P/S", " ", "A", "B", "C", "D", "E", "F", "G", "H", "I", "J", "K", "L", "M", "N", "O", "P", "Q", "R", "S", "T", "U", "V", "W", "X", "Y", "Z", "L/L", "M/L", "D/L", "B/S"}
	aztecLower = []string{"P/S", " ", "a", "b", "c", "d", "e", "f", "g", "h", "i", "j", "k", "l", "m", "n", "o", "p", "q", "r", "s", "t", "u", "v", "w", "x", "y", "z", "U/S", "M/L", "D/L", "B/S"}
	aztecMixed = []string{"P/S", " ", "\x01", "\x02", "\x03", "\x04", "\x05", "\x06", "\x07", "\x08", "\x09", "\x0a", "\x0b", "\x0c", "\x0d", "\x1b", "\x1c", "\x1d", "\x1e", "\x1f", "@", "\\", "^", "_", "`", "|", "~", "\x7f", "L/L", "U/L", "P/L", "B/S"}
	aztecPunct = []string{"FLG", "\r", "\r\n", ". ", ", ", ": ", "!", "\"", "#", "$", "%", "&", "'", "(", ")", "*", "+", ",", "-", ".", "/", ":", ";", "<", "=", ">", "?", "[", "]", "{", "}", "U/L"}
	aztecDigit = []string{"P/S", " ", "0", "1", "2", "3", "4", "5", "6", "7", "8", "9", ",", ".", "U/L", "U/S"}
)

func aztecTable(mode byte) []string {
	switch mode {
	case 'U':
		return aztecUpper
	case 'L':
		return aztecLower
	case 'M':
		return aztecMixed
	case 'P':
		return aztecPunct
	}
	return aztecDigit
}

// DecodeAztec reads a module matrix m[y][x] (true = dark).
func DecodeAztec(m [][]bool) (*AztecResult, error) {
	n := len(m)
	if n < 15 || n%2 == 0 {
		return nil, fmt.Errorf("size %d is not an Aztec symbol size", n)
	}
	for _, row := range m {
		if len(row) != n {
			return nil, errors.New("matrix is not square")
		}
	}
	c := n / 2
	at := func(x, y int) bool { return m[c+y][c+x] } // relative to the centre
	ringAll := func(d int, want bool) bool {
		for i := -d; i <= d; i++ {
			if at(i, -d) != want || at(i, d) != want || at(-d, i) != want || at(d, i) != want {
				return false
			}
		}
		return true
	}
	// compact symbols have a 9x9 bullseye (rings 0..4), full range ones 13x13 (rings 0..6)
	compact := !(ringAll(5, false) && ringAll(6, true))
	r := 7 // distance of the mode message ring
	if compact {
		r = 5
	}
	for d := 0; d < r; d++ {
		if !ringAll(d, d%2 == 0) {
			return nil, fmt.Errorf("bullseye ring at distance %d is not uniformly %v", d, d%2 == 0)
		}
	}
	// orientation marks
	marks := []struct {
		x, y int
		dark bool
	}{
		{-r, -r, true}, {-r + 1, -r, true}, {-r, -r + 1, true},
		{r, -r, true}, {r, -r + 1, true}, {r - 1, -r, false},
		{r, r - 1, true}, {r, r, false}, {r - 1, r, false},
		{-r, r, false}, {-r + 1, r, false}, {-r, r - 1, false},
	}
	for _, mk := range marks {
		if at(mk.x, mk.y) != mk.dark {
			return nil, fmt.Errorf("orientation mark module (%d,%d) relative to the centre is %v", mk.x, mk.y, !mk.dark)
		}
	}
	// mode message, clockwise from the top left
	var side []int
	for i := -r + 2; i <= r-2; i++ {
		if !compact && i == 0 {
			if at(0, -r) || at(0, r) || at(-r, 0) || at(r, 0) {
				return nil, errors.New("reference grid module inside the mode message ring is dark")
			}
			continue
		}
		side = append(side, i)
	}
	var mbits []bool
	for _, i := range side {
		mbits = append(mbits, at(i, -r))
	}
	for _, i := range side {
		mbits = append(mbits, at(r, i))
	}
	for k := len(side) - 1; k >= 0; k-- {
		mbits = append(mbits, at(side[k], r))
	}
	for k := len(side) - 1; k >= 0; k-- {
		mbits = append(mbits, at(-r, side[k]))
	}
	nib := make([]int, len(mbits)/4)
	for i, b := range mbits {
		if b {
			nib[i/4] |= 8 >> uint(i%4)
		}
	}
	gf16 := aztecGF(4)
	var layers, dataWords int
	if compact {
		if syn := gf16.Syndromes(nib, 5, 1); !AllZero(syn) {
			return nil, fmt.Errorf("compact mode message %v is not a (7,2) Reed-Solomon codeword over GF(16)", nib)
		}
		v := nib[0]<<4 | nib[1]
		layers, dataWords = v>>6+1, v&63+1
	} else {
		if syn := gf16.Syndromes(nib, 6, 1); !AllZero(syn) {
			return nil, fmt.Errorf("mode message %v is not a (10,4) Reed-Solomon codeword over GF(16)", nib)
		}
		v := nib[0]<<12 | nib[1]<<8 | nib[2]<<4 | nib[3]
		layers, dataWords = v>>11+1, v&2047+1
	}
	if AztecSize(compact, layers) != n {
		return nil, fmt.Errorf("mode message says %d layers (compact=%v) = size %d, the symbol is %dx%d", layers, compact, AztecSize(compact, layers), n, n)
	}
	// usable coordinates (reference grid lines excluded) and reference grid check
	var U []int
	for x := -c; x <= c; x++ {
		if !compact && x%16 == 0 {
			continue
		}
		U = append(U, x)
	}
	if !compact {
		for y := -c; y <= c; y++ {
			for x := -c; x <= c; x++ {
				if (x%16 == 0 || y%16 == 0) && (x > 7 || x < -7 || y > 7 || y < -7) {
					if at(x, y) != ((x+y)%2 == 0) {
						return nil, fmt.Errorf("reference grid module (%d,%d) relative to the centre is %v", x, y, at(x, y))
					}
				}
			}
		}
	}
	total := AztecTotalBits(compact, layers)
	raw := make([]bool, 0, total)
	for l := 0; l < layers; l++ {
		low, high := 2*l, len(U)-1-2*l
		rowSize := high - low - 1
		sides := [4][]bool{}
		for j := 0; j < rowSize; j++ {
			for k := 0; k < 2; k++ {
				sides[0] = append(sides[0], at(U[low+k], U[low+j]))   // left side, downwards
				sides[1] = append(sides[1], at(U[low+j], U[high-k]))  // bottom side, rightwards
				sides[2] = append(sides[2], at(U[high-k], U[high-j])) // right side, upwards
				sides[3] = append(sides[3], at(U[high-j], U[low+k]))  // top side, leftwards
			}
		}
		for _, s := range sides {
			raw = append(raw, s...)
		}
	}
	if len(raw) != total {
		return nil, fmt.Errorf("internal: walked %d data modules, expected %d", len(raw), total)
	}
	w := AztecWordSize(layers)
	totalWords := total / w
	if dataWords > totalWords {
		return nil, fmt.Errorf("mode message declares %d data words, the %d-layer symbol (compact=%v) only has %d words", dataWords, layers, compact, totalWords)
	}
	pad := total % w
	for i := 0; i < pad; i++ {
		if raw[i] {
			return nil, errors.New("leading filler bit of the outermost layer is not zero")
		}
	}
	words := make([]int, totalWords)
	for i := range words {
		for j := 0; j < w; j++ {
			words[i] <<= 1
			if raw[pad+i*w+j] {
				words[i] |= 1
			}
		}
	}
	check := totalWords - dataWords
	if syn := aztecGF(w).Syndromes(words, check, 1); !AllZero(syn) {
		return nil, fmt.Errorf("%d data + %d check words of %d bits are not a Reed-Solomon codeword", dataWords, check, w)
	}
	res := &AztecResult{Compact: compact, Layers: layers, WordSize: w, DataWords: dataWords, CheckWords: check, TotalWords: totalWords, TotalBits: total, Modes: map[string]bool{}}
	// un-stuff
	var bits []bool
	ones := 1<<uint(w) - 1
	for i, v := range words[:dataWords] {
		switch v {
		case 0, ones:
			return nil, fmt.Errorf("data word %d is all zeros or all ones", i)
		case 1:
			for j := 0; j < w-1; j++ {
				bits = append(bits, false)
			}
		case ones - 1:
			for j := 0; j < w-1; j++ {
				bits = append(bits, true)
			}
		default:
			for j := w - 1; j >= 0; j-- {
				bits = append(bits, v>>uint(j)&1 == 1)
			}
		}
	}
	res.StreamBits = len(bits)
	// decode the character stream
	pos := 0
	read := func(k int) (int, bool) {
		if pos+k > len(bits) {
			return 0, false
		}
		v := 0
		for i := 0; i < k; i++ {
			v <<= 1
			if bits[pos+i] {
				v |= 1
			}
		}
		pos += k
		return v, true
	}
	mode := byte('U')
	shift := byte(0) // one-character shift target
	itemStart := 0
	trans := func(s string) { res.Trans = append(res.Trans, s) }
	res.Modes["U"] = true
loop:
	for {
		if shift == 0 {
			itemStart = pos
			res.UsedBits = pos
		}
		cur := mode
		if shift != 0 {
			cur = shift
		}
		size := 5
		if cur == 'D' {
			size = 4
		}
		v, ok := read(size)
		if !ok {
			break loop
		}
		tok := aztecTable(cur)[v]
		wasShift := shift != 0
		shift = 0
		switch tok {
		case "P/S":
			if wasShift {
				return nil, errors.New("shift inside a shift")
			}
			shift = 'P'
			trans(fmt.Sprintf("shift %c>P", mode))
		case "U/S":
			if wasShift {
				return nil, errors.New("shift inside a shift")
			}
			shift = 'U'
			trans(fmt.Sprintf("shift %c>U", mode))
		case "L/L", "M/L", "D/L", "U/L", "P/L":
			if wasShift {
				return nil, errors.New("latch inside a shift")
			}
			trans(fmt.Sprintf("%c>%c", mode, tok[0]))
			mode = tok[0]
			res.Modes[string(mode)] = true
		case "B/S":
			ln, ok := read(5)
			if !ok {
				break loop
			}
			cls := "B/S 1-31"
			if ln == 0 {
				l2, ok := read(11)
				if !ok {
					break loop
				}
				ln = l2 + 31
				cls = "B/S 32+ (long form)"
			}
			if pos+8*ln > len(bits) {
				pos = len(bits) + 1 // runs off the end: incomplete item
				break loop
			}
			for i := 0; i < ln; i++ {
				b, _ := read(8)
				res.Content = append(res.Content, byte(b))
			}
			if ln > 0 {
				res.LastOutput = pos
			}
			trans(fmt.Sprintf("%s from %c", cls, cur))
			res.Modes["B"] = true
		case "FLG":
			return nil, errors.New("FLG(n) not expected from this encoder")
		default:
			res.Content = append(res.Content, tok...)
			res.LastOutput = pos
		}
	}
	// whatever was left incomplete must be padding: all ones
	for i := itemStart; i < len(bits); i++ {
		if !bits[i] {
			return nil, fmt.Errorf("trailing bits after the last complete character are not all 1 (bit %d of %d)", i, len(bits))
		}
	}
	return res, nil
}

// AztecFromPicture parses the "X " / "  " drawing used by the ZXing-derived test pictures.
func AztecFromPicture(s string) [][]bool {
	var out [][]bool
	var row []bool
	for i := 0; i < len(s); i++ {
		if s[i] == '\n' {
			out = append(out, row)
			row = nil
			continue
		}
		if i+1 < len(s) && s[i+1] != '\n' {
			row = append(row, s[i] == 'X')
			i++
		}
	}
	if len(row) > 0 {
		out = append(out, row)
	}
	return out
}

// SelfTestAztec validates the size formulas and decodes two externally sourced symbols.
func SelfTestAztec() error {
	if AztecSize(true, 1) != 15 || AztecSize(true, 4) != 27 || AztecSize(false, 1) != 19 || AztecSize(false, 4) != 31 ||
		AztecSize(false, 5) != 37 || AztecSize(false, 32) != 151 || AztecTotalBits(false, 32) != 19968 || AztecTotalBits(true, 1) != 104 {
		return errors.New("aztec size formulas spot values")
	}
	for l := 1; l <= 32; l++ {
		// modules of the data layers must equal the symbol area minus core and reference grid
		n := AztecSize(false, l)
		grid := 0
		c := n / 2
		for y := -c; y <= c; y++ {
			for x := -c; x <= c; x++ {
				if (x%16 == 0 || y%16 == 0) && (x > 7 || x < -7 || y > 7 || y < -7) {
					grid++
				}
			}
		}
		if n*n-15*15-grid != AztecTotalBits(false, l) {
			return fmt.Errorf("aztec full %d layers: area %d - core - grid %d != %d data bits", l, n*n, grid, AztecTotalBits(false, l))
		}
		if l <= 4 {
			n := AztecSize(true, l)
			if n*n-11*11 != AztecTotalBits(true, l) {
				return fmt.Errorf("aztec compact %d layers: area mismatch", l)
			}
		}
	}
	r, err := DecodeAztec(AztecFromPicture(aztecPicture1))
	if err != nil || string(r.Content) != "This is an example Aztec symbol for Wikipedia." || !r.Compact || r.Layers != 3 {
		return fmt.Errorf("aztec reference picture 1 decodes to %+v, %v", r, err)
	}
	r, err = DecodeAztec(AztecFromPicture(aztecPicture2))
	want := "Aztec Code is a public domain 2D matrix barcode symbology of nominally square symbols built on a square grid with a distinctive square bullseye pattern at their center."
	if err != nil || string(r.Content) != want || r.Compact || r.Layers != 6 {
		return fmt.Errorf("aztec reference picture 2 decodes to %+v, %v", r, err)
	}
	return nil
}
