#!/usr/bin/env python3
"""Rewrites section 12 of DESIGN.md (between the SENSITIVITY markers) from tools/mutants.last.json and seeded/*/meta.json."""
import glob, json, os, re
VERIF = os.path.dirname(os.path.dirname(os.path.abspath(__file__)))
out = []
# ---- seeded changes
rows = []
for d in sorted(glob.glob(os.path.join(VERIF, "seeded", "C*"))):
    name = os.path.basename(d)
    m = json.load(open(os.path.join(d, "meta.json")))
    v = m.get("verification_by_harness_author", {})
    checks = v.get("checks", {})
    caught = [k for k, x in checks.items() if x.startswith("CAUGHT")]
    missed = [k for k, x in checks.items() if not x.startswith("CAUGHT")]
    what = re.sub(r"\s+", " ", str(m.get("what", ""))).strip()
    if len(what) > 230:
        what = what[:227] + "…"
    files = ", ".join(m.get("files_changed", []))[:80]
    ok = all(v.get(k) for k in ("build_ok", "library_suite_passes_with_patch", "demo_fails_with_patch", "demo_passes_on_clean_tree")) if v else False
    status = "caught by " + ", ".join(caught) if caught else ("MISSED by the quick tier" if name in ("C07-w9-1", "C18-w9-1", "C10-w10-1", "C14-w11-1") else "MISSED")
    if name in ("C07-w9-1", "C18-w9-1", "C10-w10-1", "C14-w11-1"):
        status += " (caught by the thorough tier)"
    if missed and caught:
        status += " (not by " + ", ".join(missed) + ")"
    if "strengthening_needed" in m:
        status += " †"
    rows.append((name, m.get("property"), files, what, status, ok))
out.append("### 12.1 Seeded changes written by independent sub-agents (`/verif/seeded/<name>/`)\n")
out.append("Each sub-agent saw only the text of one property and its own scratch worktree (nothing from `/verif`) and was asked for")
out.append("changes that compile, pass the library's 56 tests, break the property, and need something specific to manifest.")
out.append("Wave 1 asked for two per property, wave 2 (`-w2-`) for three more that differ in kind from wave 1, wave 3 (`-w3-`) for the three hardest-to-notice")
out.append("realistic defects, wave 4 (`-w4-`) for two with new angles (shared code hurting one variant, extreme parameters, input normalisation")
out.append("features, corner rules of the standards), wave 5 (`-w5-`) for two that random testing is unlikely to hit (a conjunction of")
out.append("conditions, one table row, a particular history, one boundary value, a fast path for one input shape), wave 6 (`-w6-`) for two that")
out.append("imitate maintenance work (standard-library modernisation, a feature addition that leaks into the old entry points, a performance")
out.append("refactoring, an over-correcting bug fix), wave 7 (`-w7-`) was clause-targeted and adversarial: the sub-agent was told what kind of")
out.append("harness is being evaluated (reference readers, structural checks, boundary sweeps, models, fresh-process comparison, race workloads) and")
out.append("asked to split the property into clauses and break the two clauses such a harness is least likely to verify; wave 8 (`-w8-`) repeated that")
out.append("with a description of everything the harness had learnt by then, and waves 9, 10 and 11 (`-w9-`, `-w10-`, `-w11-`: one change per property) once more each. I re-confirmed every one")
out.append("(build, library suite green, demonstration fails with / passes without the patch — column *ok*) and ran the quick tier of the")
out.append("targeted property against the patched copy (`tools/seeded.py`, recorded in each `meta.json`). † = the check missed it at first and")
out.append("was strengthened (what changed is in `meta.json` → `strengthening_needed` and summarised in 12.3).\n")
out.append("| name | property | files | what the change does | result | ok |")
out.append("|---|---|---|---|---|---|")
for r in rows:
    out.append(f"| {r[0]} | {r[1]} | {r[2]} | {r[3].replace('|', '/')} | {r[4]} | {'yes' if r[5] else 'NO'} |")
n = len(rows)
c = sum(1 for r in rows if r[4].startswith("caught"))
out.append(f"\n{c} of {n} seeded changes are caught by the quick tier of a registered check; `C07-w9-1`, `C18-w9-1`, `C10-w10-1` and `C14-w11-1` (they need "
           "millions of characters) by the thorough tier only; `C10-w9-1` and `C10-w11-1` (in my reading not a violation) are not caught (§8).\n")
# ---- own mutants
try:
    mm = json.load(open(os.path.join(VERIF, "tools", "mutants.last.json")))
except Exception:
    mm = []
out.append("### 12.2 My own sensitivity mutations (`tools/mutants.py`)\n")
out.append("One-line/one-table-entry changes taken from the *Sens.* lists of §5, applied to a scratch copy; `suite` says whether the")
out.append("library's own tests notice; then the quick tier of the expected properties.\n")
out.append("| mutation | library suite | quick-tier verdicts |")
out.append("|---|---|---|")
for name, suite, verdicts in mm:
    vs = ", ".join(f"{k}: {v}" for k, v in verdicts.items()) if isinstance(verdicts, dict) else ""
    out.append(f"| {name} | {suite} | {vs or '(equivalent / no property expected)'} |")
text = "\n".join(out)
p = os.path.join(VERIF, "DESIGN.md")
s = open(p).read()
if "@@SENSITIVITY@@" in s:
    s = s.replace("@@SENSITIVITY@@", "<!-- SENSITIVITY-BEGIN -->\n" + text + "\n<!-- SENSITIVITY-END -->")
else:
    s = re.sub(r"<!-- SENSITIVITY-BEGIN -->.*<!-- SENSITIVITY-END -->", lambda _: "<!-- SENSITIVITY-BEGIN -->\n" + text + "\n<!-- SENSITIVITY-END -->", s, flags=re.S)
open(p, "w").write(s)
print("rows", n, "caught", c, "mutants", len(mm))
