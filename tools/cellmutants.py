#!/usr/bin/env python3
"""Table-cell mutation sweep (development aid): flips ONE randomly chosen cell of a lookup table of the library
(in a scratch copy) and runs the quick tier of the property that must notice. Answers "is every row/cell of the big tables
actually reached and judged by the checks?" by sampling cells. Usage: tools/cellmutants.py <samples per table> [table-substring ...]
"""
import json, os, random, re, shutil, subprocess, sys, tempfile, time

VERIF = os.path.dirname(os.path.dirname(os.path.abspath(__file__)))
ENV = dict(os.environ, GOFLAGS="-mod=mod", GOPROXY="off", GOSUMDB="off", GOTOOLCHAIN="local")


def flip_bool(tok, rnd):
    return "false" if tok == "true" else "true"


def bump_int(tok, rnd):
    v = int(tok, 0)
    return str(v + 1 if v < 2 or rnd.random() < 0.5 else v - 1)


def bump_hex(tok, rnd):
    v = int(tok, 16)
    return hex(v ^ (1 << rnd.randrange(1, 16)))


def other_letter(tok, rnd):
    c = tok[-1]
    alt = chr((ord(c) - 65 + 1 + rnd.randrange(24)) % 26 + 65)
    return tok[:-1] + alt


# name, file, start marker, end marker, token regex, alteration, properties
T = [
    ("qr-versionInfos", "qr/versioninfo.go", "var versionInfos = []*versionInfo{", "\n}\n", r"(?<=[ ,])\d+(?=[,}])", bump_int, ["C01"]),
    ("qr-formatInfos", "qr/encoder.go", "var formatInfos = ", "\n}\n", r"true|false", flip_bool, ["C01"]),
    ("qr-versionInfoBits", "qr/encoder.go", "var versionInfoBitsByVersion = ", "\n}\n", r"true|false", flip_bool, ["C01"]),
    ("dm-codeSizes", "datamatrix/codesize.go", "var codeSizes []*dmCodeSize = []*dmCodeSize{", "\n}", r"(?<=[ ,])\d+(?=[,}])", bump_int, ["C02"]),
    ("aztec-latchTable", "aztec/state.go", "latchTable = map", "// A map showing the available shift codes", r"(?<=[+ ])\d+(?=[,)])", bump_int, ["C03"]),
    ("aztec-shiftTable", "aztec/state.go", "shiftTable = map", "charMap map", r"(?<=: )\d+(?=,)", bump_int, ["C03"]),
    ("aztec-wordsize", "aztec/encoder.go", "word_size = []int{", "}", r"\d+", lambda t, r: {"4": "6", "6": "8", "8": "10", "10": "12", "12": "10"}[t], ["C03"]),
    ("aztec-mixedTable", "aztec/state.go", "mixedTable := []int{", "}", r"(?<=[ ,\t])\d+(?=,)", bump_int, ["C03"]),
    ("pdf-mixedRaw", "pdf417/highlevel.go", "mixedRaw := []rune{", "}", r"(?<=[ ,\t])[1-9]\d+(?=,)", bump_int, ["C04"]),
    ("pdf-punctRaw", "pdf417/highlevel.go", "punctRaw := []rune{", "}", r"(?<=[ ,\t])[1-9]\d+(?=,)", bump_int, ["C04"]),
    ("pdf-codewords", "pdf417/codewords.go", "var codewords = [][]int{", "\n}\n", r"0x[0-9a-f]{5}", None, ["C04"]),  # None = swap with neighbour
    ("pdf-factors", "pdf417/errorcorrection.go", "var correctionFactors = [][]int{", "\n}\n", r"(?<=[ ,\t{])\d+(?=,)", bump_int, ["C04", "C12"]),
    ("c128-table", "code128/encodingtable.go", "var encodingTable = [107][]bool{", "\n}\n", r"true|false", flip_bool, ["C05"]),
    ("ean-table", "ean/encoder.go", "var encoderTable = map[rune]encodedNumber{", "\n}\n", r"true|false", flip_bool, ["C06"]),
    ("c39-table", "code39/encoder.go", "var encodeTable = map[rune]encodeInfo{", "\n}\n", r"true|false", flip_bool, ["C07"]),
    ("c39-extended", "code39/encoder.go", "var extendedTable = map[rune]string{", "\n}\n", r"`[$%/+][A-Z]`", lambda t, r: t[:2] + chr((ord(t[2]) - 65 + 1 + r.randrange(24)) % 26 + 65) + "`", ["C07"]),
    ("c93-table", "code93/encoder.go", "var encodeTable = map[rune]encodeInfo{", "\n}\n", r"0x1[0-9A-F]{2}", lambda t, r: "0x%X" % (int(t, 16) ^ (1 << r.randrange(1, 8))), ["C07"]),
    ("c93-extended", "code93/encoder.go", "var extendedTable = []string{", "\n}\n", r"(?<=\\u00f[1-4])[A-Z](?=\")", other_letter, ["C07"]),
    ("codabar-table", "codabar/encoder.go", "var encodingTable = map[rune][]bool{", "\n}\n", r"true|false", flip_bool, ["C08"]),
    ("2of5-table", "twooffive/encoder.go", "encodingTable = map[rune]pattern{", "\n\t}\n", r"true|false", flip_bool, ["C08"]),
]


def sh(cmd, cwd=None, env=None, timeout=1800):
    r = subprocess.run(cmd, cwd=cwd, env=env or ENV, stdout=subprocess.PIPE, stderr=subprocess.STDOUT, text=True, timeout=timeout)
    return r.returncode, r.stdout


def main():
    n = int(sys.argv[1]) if len(sys.argv) > 1 else 3
    filt = sys.argv[2:]
    rnd = random.Random(int(os.environ.get("VERIF_SEED", "12345")))
    log = open(os.path.join(VERIF, "tools", "cellmutants.log"), "a")
    summary = {}
    for name, path, start, end, tokre, alter, props in T:
        if filt and not any(f in name for f in filt):
            continue
        src = open(os.path.join("/repo", path)).read()
        a = src.index(start)
        b = src.index(end, a + len(start))
        region = src[a:b]
        toks = list(re.finditer(tokre, region))
        if not toks:
            print(name, "NO TOKENS")
            continue
        res = []
        for k in range(n):
            m = toks[rnd.randrange(len(toks))]
            if alter is None:
                j = toks.index(m)
                m2 = toks[j + 1 if j + 1 < len(toks) else j - 1]
                lo, hi = sorted([m, m2], key=lambda x: x.start())
                new_region = region[:lo.start()] + hi.group() + region[lo.end():hi.start()] + lo.group() + region[hi.end():]
                desc = f"swap {lo.group()}<->{hi.group()} @{lo.start()}"
            else:
                new_tok = alter(m.group(), rnd)
                new_region = region[:m.start()] + new_tok + region[m.end():]
                desc = f"{m.group()}->{new_tok} @{m.start()} (line {src[:a + m.start()].count(chr(10)) + 1})"
            d = tempfile.mkdtemp(prefix="cell-", dir="/tmp")
            try:
                dst = os.path.join(d, "repo")
                shutil.copytree("/repo", dst, ignore=shutil.ignore_patterns(".git"))
                open(os.path.join(dst, path), "w").write(src[:a] + new_region + src[b:])
                rc, out = sh(["go", "build", "./..."], cwd=dst)
                if rc != 0:
                    res.append((desc, "no-compile"))
                    continue
                rc, out = sh(["go", "test", "-vet=off", "-count=1", "./" + os.path.dirname(path) + "/..."], cwd=dst)
                suite = "suite-pass" if rc == 0 else "suite-FAILS"
                verdict = []
                for p in props:
                    env = dict(ENV, VERIF_REPO_OVERRIDE=dst, VERIF_SEED=str(k))
                    rc, out = sh([os.path.join(VERIF, "check"), p, "quick"], cwd=VERIF, env=env)
                    verdict.append(f"{p}:{ {0: 'MISSED', 1: 'caught', 2: 'inconclusive'}.get(rc, rc)}")
                    if rc != 1:
                        log.write(f"--- {name} {desc} {p} rc={rc}\n{out[-800:]}\n")
                res.append((desc, suite + " " + " ".join(verdict)))
            finally:
                shutil.rmtree(d, ignore_errors=True)
            print(f"{name:20s} {desc:45s} {res[-1][1]}", flush=True)
            log.write(f"{name} {desc} {res[-1][1]}\n")
            log.flush()
        summary[name] = res
    json.dump(summary, open(os.path.join(VERIF, "tools", "cellmutants.last.json"), "w"), indent=1)


if __name__ == "__main__":
    main()
