#!/usr/bin/env python3
"""False-alarm probe (development aid): behaviour-changing but property-preserving edits of the library (other valid mask
tie-break, other PDF417 shape preference, stricter Aztec policy constant, other code-set preference, ceil instead of floor
centring, other growth policy, eager tables, ...). Every registered check must stay silent on each of them.
Usage: tools/benign.py [name-substring ...]
"""
import json, os, shutil, subprocess, sys, tempfile, time

VERIF = os.path.dirname(os.path.dirname(os.path.abspath(__file__)))
ENV = dict(os.environ, GOFLAGS="-mod=mod", GOPROXY="off", GOSUMDB="off", GOTOOLCHAIN="local")
# development aid: run the checks of a frozen copy of /verif (so that the harness can be edited meanwhile); results are still written here
CHECK_DIR = os.environ.get("VERIF_CHECK_DIR", VERIF)
ALL = [f"C{n:02d}" for n in range(1, 19)]

B = [
    ("qr-mask-tiebreak-highest", "qr/encoder.go", "if p < lowestPenalty {", "if p <= lowestPenalty {",
     "ties between masks go to the highest mask number instead of the lowest: every symbol is still valid"),
    ("pdf-preferred-ratio", "pdf417/dimensions.go", "preferred_ratio = 3.0", "preferred_ratio = 2.0", "another shape preference: rows/columns differ, all within limits"),
    ("pdf-module-height", "pdf417/dimensions.go", "moduleHeight    = 2", "moduleHeight    = 3", "rows are three pixels high instead of two"),
    ("aztec-policy-12", "aztec/encoder.go", "/ 100) + 11", "/ 100) + 12", "one more reserved check bit than before: still at least the requested percentage"),
    ("scale-ceil-centring", "scaledbarcode.go", "offsetX := (width - (orgWidth * factor)) / 2\n\toffsetY := (height - (orgHeight * factor)) / 2",
     "offsetX := (width - (orgWidth * factor) + 1) / 2\n\toffsetY := (height - (orgHeight * factor) + 1) / 2", "odd margins put the extra pixel on the other side (still centred to within one pixel)"),
    ("bitlist-growth-policy", "utils/bitlist.go", "if growBy < 128 {\n\t\tgrowBy = 128", "if growBy < 64 {\n\t\tgrowBy = 64", "another growth policy"),
    ("rs-eager-generators", "utils/reedsolomon.go", "\treturn &ReedSolomonEncoder{\n\t\tgf, []*GFPoly{NewGFPoly(gf, []int{1})}, new(sync.Mutex),\n\t}",
     "\trs := &ReedSolomonEncoder{\n\t\tgf, []*GFPoly{NewGFPoly(gf, []int{1})}, new(sync.Mutex),\n\t}\n\tif gf.Size > 40 {\n\t\trs.getPolynomial(32)\n\t}\n\treturn rs",
     "generator polynomials up to degree 32 are built when the encoder is created"),
    ("c128-prefer-b-start", "code128/encode.go", "\tif curEncoding == 0 {\n\t\tfor _, r := range nextRunes {", "\tif curEncoding == 0 && len(nextRunes) < 40 {\n\t\tfor _, r := range nextRunes {",
     "long contents without early control characters start in code set B and switch later: another valid code-set path"),
    ("qr-padding-order-noop", "qr/encoder.go", "for bl.Len()%8 != 0 {\n\t\tbl.AddBit(false)\n\t}", "for bl.Len()%8 != 0 {\n\t\tbl.AddBits(0, 1)\n\t}", "pure refactoring"),
    ("dm-ecc-refactor", "datamatrix/errorcorrection.go", "buff := make([]int, dataCnt)", "buff := make([]int, dataCnt, dataCnt+size.ErrorCorrectionCodewordsPerBlock())", "extra capacity for the block buffer (pure refactoring)"),
    ("ean-precomputed-guards", "ean/encoder.go", "result.AddBit(false, true, false, true, false)\n\t\t}\n\t\tresult.AddBit(data...)\n\t}\n\tresult.AddBit(true, false, true)\n\n\treturn result",
     "for _, b := range []bool{false, true, false, true, false} {\n\t\t\t\tresult.AddBit(b)\n\t\t\t}\n\t\t}\n\t\tresult.AddBit(data...)\n\t}\n\tresult.AddBit(true, false, true)\n\n\treturn result", "pure refactoring of the EAN-8 centre guard"),
    ("aztec-quote-in-punct-table", "aztec/state.go", "0, '\\r', 0, 0, 0, 0, '!', '\\'', '#',", "0, '\\r', 0, 0, 0, 0, '!', '\"', '#',",
     "the double quote gets its PUNCT code 7 (the ZXing-inherited table had an apostrophe there and sent '\"' through binary shift): shorter, still correct"),
    ("c93-specials-direct", "code93/encoder.go", '"\\u00f3A", "\\u00f3B", "\\u00f3C", "\\u00f3D", "\\u00f3E", "\\u00f3F", "\\u00f3G",', '"\\u00f3A", "\\u00f3B", "\\u00f3C", "$", "%", "\\u00f3F", "\\u00f3G",',
     "full-ASCII Code 93 writes $ and % directly (they are not shift characters in Code 93) instead of (/)D and (/)E"),
    ("c39-dash-as-pair", "code39/encoder.go", "44: `/L`, 47: `/O`,", "44: `/L`, 45: `/M`, 46: `/N`, 47: `/O`,", "full-ASCII Code 39 spells '-' and '.' as /M and /N (valid alternative spellings)"),
    ("c128-never-code-c", "code128/encode.go", "func shouldUseCTable(nextRunes []rune, curEncoding byte) bool {\n", "func shouldUseCTable(nextRunes []rune, curEncoding byte) bool {\n\tif len(nextRunes) > 0 && nextRunes[0] != FNC1 && len(nextRunes) < 1000 {\n\t\treturn false\n\t}\n",
     "digits are never packed in code set C (longer but valid symbols; the property does not ask for the shortest symbol)"),
    ("aztec-no-punct-latch", "aztec/highlevel.go", "if !charInCurrentTable || mode == s.mode || mode == mode_digit {", "if (mode != mode_punct || s.mode == mode_punct) && (!charInCurrentTable || mode == s.mode || mode == mode_digit) {",
     "the search never latches to PUNCT (shifts and binary shift are used instead): another valid high-level encoding"),
    ("qr-penalty-bound-noop", "qr/encoder.go", "\tlowestPenalty := ^uint(0)\n", "\tlowestPenalty := ^uint(0) / 2\n", "pure no-op on the penalty bound (scores never get near it)"),
    ("1d-correct-rgba64at", "utils/base1dcode.go", "func (c *base1DCodeIntCS) CheckSum() int {",
     "// RGBA64At implements image.RGBA64Image.\nfunc (c *base1DCode) RGBA64At(x, y int) color.RGBA64 {\n\tr, g, b, a := c.At(x, y).RGBA()\n\treturn color.RGBA64{R: uint16(r), G: uint16(g), B: uint16(b), A: uint16(a)}\n}\n\nfunc (c *base1DCodeIntCS) CheckSum() int {",
     "a correct RGBA64At fast path for 1D codes (image/draw will use it)"),
    ("aztec-correct-opaque", "aztec/azteccode.go", "func (c *aztecCode) set(x, y int) {",
     "// Opaque reports whether both colours are opaque.\nfunc (c *aztecCode) Opaque() bool {\n\t_, _, _, fa := c.color.Foreground.RGBA()\n\t_, _, _, ba := c.color.Background.RGBA()\n\treturn fa == 0xffff && ba == 0xffff\n}\n\nfunc (c *aztecCode) set(x, y int) {",
     "a correct Opaque() for Aztec symbols"),
    ("bitlist-iterate-buffered", "utils/bitlist.go", "\tres := make(chan byte)\n\n\tgo func() {\n\t\tc := bl.count",
     "\tres := make(chan byte, (bl.count+7)/8)\n\n\tfunc() {\n\t\tc := bl.count",
     "IterateBytes fills a buffered channel synchronously instead of starting a goroutine (same bytes, closed channel)"),
    ("rs-encode-copy-result", "utils/reedsolomon.go", "\tcopy(result[numZero:], remainder.Coefficients)\n\treturn result", "\tcopy(result[numZero:], remainder.Coefficients)\n\tout := make([]int, len(result))\n\tcopy(out, result)\n\treturn out",
     "Encode returns a fresh copy (pure refactoring)"),
    ("codabar-precompiled-regexp", "codabar/encoder.go", "checkValid, _ := regexp.Compile(`[ABCD][0123456789\\-\\$\\:/\\.\\+]*[ABCD]$`)", "checkValid := regexp.MustCompile(`^[ABCD][0123456789\\-\\$\\:/\\.\\+]*[ABCD]$`)",
     "anchored pattern (same accepted set)"),
]


def sh(cmd, cwd=None, env=None, timeout=3600):
    r = subprocess.run(cmd, cwd=cwd, env=env or ENV, stdout=subprocess.PIPE, stderr=subprocess.STDOUT, text=True, timeout=timeout)
    return r.returncode, r.stdout


def main():
    filt = sys.argv[1:]
    out_path = os.path.join(VERIF, "tools", "benign.last.json")
    try:
        res = json.load(open(out_path))  # results of earlier (partial) runs are kept, re-run entries are replaced
    except Exception:
        res = {}
    for name, path, old, new, why in B:
        if filt and not any(f in name for f in filt):
            continue
        d = tempfile.mkdtemp(prefix="benign-", dir="/tmp")
        try:
            dst = os.path.join(d, "repo")
            shutil.copytree("/repo", dst, ignore=shutil.ignore_patterns(".git"))
            p = os.path.join(dst, path)
            s = open(p).read()
            if old not in s:
                print(f"{name}: PATTERN-NOT-FOUND")
                continue
            open(p, "w").write(s.replace(old, new, 1))
            rc, out = sh(["go", "build", "./..."], cwd=dst)
            if rc != 0:
                print(f"{name}: DOES-NOT-COMPILE\n{out[-300:]}")
                continue
            rc, _ = sh(["go", "test", "-vet=off", "-count=1", "./..."], cwd=dst)
            suite = "suite-pass" if rc == 0 else "suite-FAILS"
            alarms = []
            relevant = ALL
            if os.environ.get("BENIGN_RELEVANT_ONLY"):  # the checks of the touched family plus the cross-cutting ones
                fam = {"qr/": ["C01", "C12", "C13"], "pdf417/": ["C04", "C12", "C13"], "aztec/": ["C03", "C12", "C13"], "datamatrix/": ["C02", "C12", "C13"],
                       "code128/": ["C05", "C14"], "ean/": ["C06", "C14"], "code39/": ["C07", "C14"], "code93/": ["C07"], "codabar/": ["C08"], "twooffive/": ["C08"],
                       "utils/bitlist": ["C18", "C01", "C03", "C05", "C06"], "utils/reedsolomon": ["C17", "C01", "C02", "C03"], "utils/base1dcode": ["C05", "C06", "C07", "C08", "C14"],
                       "scaledbarcode": ["C09", "C14"]}
                relevant = ["C09", "C10", "C11", "C15", "C16"]
                for k, v in fam.items():
                    if path.startswith(k):
                        relevant = sorted(set(relevant + v))
            for pid in relevant:
                env = dict(ENV, VERIF_REPO_OVERRIDE=dst, VERIF_SEED=os.environ.get("VERIF_SEED", "0"))
                rc, out = sh([os.path.join(CHECK_DIR, "check"), pid, "quick"], cwd=CHECK_DIR, env=env)
                if rc != 0:
                    v = [l for l in out.splitlines() if "check=" in l or l.startswith(("VIOLATION", "INCONCLUSIVE"))]
                    alarms.append(f"{pid} rc={rc}: " + " | ".join(v)[:400])
            print(f"{name:28s} {suite:11s} " + ("SILENT (no alarm from %d checks)" % len(relevant) if not alarms else "ALARMS:\n    " + "\n    ".join(alarms)), flush=True)
            res[name] = {"why_benign": why, "suite": suite, "alarms": alarms}
        finally:
            shutil.rmtree(d, ignore_errors=True)
    json.dump(res, open(out_path, "w"), indent=1)


if __name__ == "__main__":
    main()
