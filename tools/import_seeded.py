#!/usr/bin/env python3
"""Imports sub-agent deliverables /tmp/seed/<ID>/out/{patch,demo,meta}<i> into /verif/seeded/<ID>-<i>/."""
import json, os, shutil, sys, glob
args = sys.argv[1:]
src, wave = "/tmp/seed", ""
if args and args[0] == "--wave":  # tools/import_seeded.py --wave 5 C01 ...  reads /tmp/seed5/<ID>/out, writes seeded/<ID>-w5-<i>
    wave = "w" + args[1] + "-"
    src = "/tmp/seed" + args[1]
    args = args[2:]
for pid in args:
    out = f"{src}/{pid}/out"
    for i in (1, 2, 3):
        pf = f"{out}/patch{i}.diff"
        if not os.path.exists(pf):
            continue
        demos = glob.glob(f"{out}/demo{i}_test.go") + glob.glob(f"{out}/demo{i}*.go")
        mf = f"{out}/meta{i}.json"
        if not demos or not os.path.exists(mf):
            print(pid, i, "incomplete"); continue
        d = f"/verif/seeded/{pid}-{wave}{i}"
        os.makedirs(d, exist_ok=True)
        shutil.copy(pf, f"{d}/patch.diff")
        shutil.copy(demos[0], f"{d}/{os.path.basename(demos[0])}")
        try:
            meta = json.load(open(mf))
        except Exception as e:
            print(pid, i, "bad meta", e); continue
        meta["demo_file"] = os.path.basename(demos[0])
        dp = str(meta.get("demo_path", "")).split()[0] if meta.get("demo_path") else ""
        if not dp.endswith(".go"):
            dp = os.path.join(dp, "zz_" + os.path.basename(demos[0]))
        meta["demo_path"] = dp
        meta["origin"] = "independent sub-agent given only the property text and a scratch worktree"
        meta.setdefault("property", pid)
        json.dump(meta, open(f"{d}/meta.json", "w"), indent=1, ensure_ascii=False)
        print("imported", d, meta.get("demo_path"), "|", meta.get("demo_cmd"))
