#!/bin/bash
# Runs the quick tier of every property for several VERIF_SEED values and prints every line that is not a plain OK.
# Usage: tools/soak.sh "1 2 3" [IDs...]
cd "$(dirname "$0")/.."
seeds=${1:-"1 2 3"}; shift
ids=${@:-C01 C02 C03 C04 C05 C06 C07 C08 C09 C10 C11 C12 C13 C14 C15 C16 C17 C18}
for s in $seeds; do
  for p in $ids; do
    out=$(VERIF_SEED=$s timeout 3000 ./check $p quick 2>&1); rc=$?
    last=$(echo "$out" | grep -E "^(OK|VIOLATION|INCONCLUSIVE)" | tail -1)
    echo "seed=$s $p rc=$rc $last"
    if [ $rc -ne 0 ]; then echo "$out" | tail -30; fi
  done
done
