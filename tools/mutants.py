#!/usr/bin/env python3
"""Sensitivity harness (development aid, not a registered check).

For every mutation below: copy /repo to a scratch directory, apply the textual change, confirm that the
mutant still compiles and passes the library's own test-suite, then run the quick tier of the properties that
are expected to catch it (through VERIF_REPO_OVERRIDE, /repo itself is never touched) and report
caught / MISSED. Usage: tools/mutants.py [name-substring ...]   (results appended to tools/mutants.log)
"""
import json, os, shutil, subprocess, sys, tempfile, time

VERIF = os.path.dirname(os.path.dirname(os.path.abspath(__file__)))
ENV = dict(os.environ, GOFLAGS="-mod=mod", GOPROXY="off", GOSUMDB="off", GOTOOLCHAIN="local")

# (name, file, old, new, [properties expected to catch])
M = [
    # --- C18 BitList
    ("bitlist-newcap", "utils/bitlist.go", "if capacity%32 != 0 {", "if capacity%32 > 1 {", ["C18"]),
    ("bitlist-grow128", "utils/bitlist.go", "nd := make([]int32, len(bl.data)+growBy)", "nd := make([]int32, growBy+len(bl.data)/2*2)", ["C18"]),
    ("bitlist-setbit-shift", "utils/bitlist.go", "itmBitShift := 31 - (index % 32)\n\tif value {", "itmBitShift := 31 - (index % 32)\n\tif index == 4096 {\n\t\titmBitShift = 30\n\t}\n\tif value {", ["C18"]),
    ("bitlist-getbytes", "utils/bitlist.go", "shift := (3 - (i % 4)) * 8", "shift := (3 - (i % 4)) * 8\n\t\tif i == 513 {\n\t\t\tshift = 0\n\t\t}", ["C18"]),
    ("bitlist-addbits-count", "utils/bitlist.go", "for i := int(count) - 1; i >= 0; i-- {\n\t\tbl.AddBit(((b >> uint(i)) & 1) == 1)", "for i := int(count&63) - 1; i >= 0; i-- {\n\t\tbl.AddBit(((b >> uint(i)) & 1) == 1)", ["C18"]),
    ("bitlist-iterate", "utils/bitlist.go", "for c > 0 {", "for c > 1 {", ["C18"]),
    # --- C17 GF / RS
    ("gf-invers", "utils/galoisfield.go", "return gf.ALogTbl[(gf.Size-1)-gf.LogTbl[num]]", "return gf.ALogTbl[(gf.Size-2)-gf.LogTbl[num]+1-num/4095]", ["C17"]),
    ("gf-divide-unfix", "utils/galoisfield.go", "+(gf.Size-1))%(gf.Size-1)]", ")%(gf.Size-1)]", ["C17"]),
    ("rs-base", "utils/reedsolomon.go", "rs.gf.ALogTbl[d-1+rs.gf.Base]", "rs.gf.ALogTbl[d-1+rs.gf.Base*(1-d/200)]", ["C17"]),
    ("rs-cache-last", "utils/reedsolomon.go", "rs.polynomes = append(rs.polynomes, next)\n\t\t\tlast = next", "rs.polynomes = append(rs.polynomes, next)\n\t\t\tif d%28 != 0 {\n\t\t\t\tlast = next\n\t\t\t}", ["C17", "C15", "C01"]),
    ("rs-numzero", "utils/reedsolomon.go", "numZero := int(eccCount) - len(remainder.Coefficients)", "numZero := int(eccCount) - len(remainder.Coefficients)\n\tif numZero > 1 {\n\t\tnumZero = 1\n\t}", ["C17"]),
    ("gfpoly-add", "utils/gfpoly.go", "copy(sumDiff, largeCoeff[:lenDiff])", "copy(sumDiff, largeCoeff[:lenDiff/8*8+lenDiff%8])", []),
    ("gfpoly-divide-degree", "utils/gfpoly.go", "for remainder.Degree() >= other.Degree() && !remainder.Zero() {", "for remainder.Degree() > other.Degree() && !remainder.Zero() {", ["C17"]),
    # --- C01 / C12 / C13 QR
    ("qr-block-table-23Q", "qr/versioninfo.go", "&versionInfo{23, Q, 30, 11, 24, 14, 25},", "&versionInfo{23, Q, 30, 12, 24, 13, 25},", ["C01"]),
    ("qr-mask-5-6", "qr/encoder.go", "case 5:\n\t\tval = val != (((y*x)%2)+((y*x)%3) == 0)", "case 5:\n\t\tval = val != ((((y*x)%2)+((y*x)%3))%2 == 0)", ["C01"]),
    ("qr-versioninfo-31", "qr/encoder.go", "31: []bool{false, true, true, true, true, true, false, false, true, false, false, true, false, true, false, false, false, false},", "31: []bool{false, true, true, true, true, true, false, false, true, false, false, true, false, true, false, false, false, true},", ["C01"]),
    ("qr-charcount-27", "qr/versioninfo.go", "case numericMode:\n\t\tif vi.Version < 10 {\n\t\t\treturn 10\n\t\t} else if vi.Version < 27 {", "case numericMode:\n\t\tif vi.Version < 10 {\n\t\t\treturn 10\n\t\t} else if vi.Version < 26 {", ["C01"]),
    ("qr-pad-byte", "qr/encoder.go", "bl.AddByte(17)", "bl.AddByte(16)", ["C01"]),
    ("qr-alnum-charset", "qr/alphanumeric.go", "$%*+-./:", "$%*+-/.:", ["C01"]),
    ("qr-col6-skip", "qr/encoder.go", "\t\t\t\t\tif curX == 6 {\n\t\t\t\t\t\tcurX--\n\t\t\t\t\t}\n\t\t\t\t\tisUpward = true", "\t\t\t\t\tisUpward = true", ["C01"]),
    ("qr-format-Q-H", "qr/encoder.go", "\tQ: {\n\t\t0:", "\tH + 1: {\n\t\t0:", []),
    ("qr-level-swap", "qr/encoder.go", "formatInfo = formatInfos[vi.Level][usedMask]", "lv := vi.Level\n\t\tif lv == Q && vi.Version == 9 {\n\t\t\tlv = H\n\t\t}\n\t\tformatInfo = formatInfos[lv][usedMask]", ["C12", "C01"]),
    ("qr-smallest-gt", "qr/versioninfo.go", "if (vi.totalDataBytes() * 8) >= (dataBits + int(vi.charCountBits(mode))) {", "if (vi.totalDataBytes() * 8) > (dataBits + int(vi.charCountBits(mode))) {", ["C13", "C10"]),
    ("qr-auto-order", "qr/automatic.go", "bits, vi, _ := Numeric.getEncoder()(content, ecl)", "bits, vi, _ := AlphaNumeric.getEncoder()(content, ecl)", ["C13"]),
    ("qr-sign-unfix", "qr/numeric.go", " || curStr[0] < '0' || curStr[0] > '9' {", " {", ["C01", "C10"]),
    ("qr-terminator", "qr/encoder.go", "for i := 0; i < 4 && bl.Len() < vi.totalDataBytes()*8; i++ {", "for i := 0; i < 3 && bl.Len() < vi.totalDataBytes()*8; i++ {", ["C01"]),
    ("qr-darkmodule", "qr/encoder.go", "setAll(8, dim-8, true)", "setAll(8, dim-8, dim != 57)", ["C01"]),
    # --- C02 DataMatrix
    ("dm-pad-const", "datamatrix/encoder.go", "R := ((149 * (len(data) + 1)) % 253) + 1", "R := ((150 * (len(data) + 1)) % 253) + 1", ["C02"]),
    ("dm-pad-254", "datamatrix/encoder.go", "if tmp > 254 {", "if tmp >= 254 {", ["C02"]),
    ("dm-corner1", "datamatrix/codelayout.go", "l.Set(l.size.MatrixRows()-1, 1, value, 1)\n\tl.Set(l.size.MatrixRows()-1, 2, value, 2)\n\tl.Set(0, l.size.MatrixColumns()-2, value, 3)", "l.Set(l.size.MatrixRows()-1, 2, value, 1)\n\tl.Set(l.size.MatrixRows()-1, 1, value, 2)\n\tl.Set(0, l.size.MatrixColumns()-2, value, 3)", ["C02"]),
    ("dm-ecc-count", "datamatrix/codesize.go", "&dmCodeSize{88, 88, 4, 4, 224, 4},", "&dmCodeSize{88, 88, 4, 4, 228, 4},", ["C02", "C12"]),
    ("dm-156-155", "datamatrix/codesize.go", "if idx < 8 {\n\t\t\treturn 156", "if idx < 7 {\n\t\t\treturn 156", ["C02"]),
    ("dm-fixed-pattern", "datamatrix/codelayout.go", "l.Set(l.size.MatrixRows()-2, l.size.MatrixColumns()-2, 255, 0)", "l.Set(l.size.MatrixRows()-2, l.size.MatrixColumns()-2, 0, 0)", ["C02"]),
    ("dm-upper-shift", "datamatrix/encoder.go", "result = append(result, 235, c-127)", "result = append(result, 235, c-128)", ["C02"]),
    ("dm-144-unfix", "datamatrix/errorcorrection.go", "eccStart = (block + 2) % size.BlockCount", "eccStart = block", ["C02"]),
    ("dm-size-gt", "datamatrix/encoder.go", "if s.DataCodewords() >= len(data) {", "if s.DataCodewords() > len(data) {", ["C13", "C10"]),
    # --- C03 Aztec
    ("az-latch-table", "aztec/state.go", "mode_mixed: (9 << 16) + (14 << 5) + 29,", "mode_mixed: (9 << 16) + (14 << 5) + 28,", ["C03"]),
    ("az-shift-digit-upper", "aztec/state.go", "mode_upper: 15,", "mode_upper: 14,", ["C03"]),
    ("az-bshift-31", "aztec/token.go", "if i == 0 || (i == 31 && bst.bShiftByteCnt <= 62) {", "if i == 0 || (i == 31 && bst.bShiftByteCnt < 62) {", ["C03"]),
    ("az-stuff-mask", "aztec/encoder.go", "mask := (1 << uint(wordSize)) - 2", "mask := (1 << uint(wordSize)) - 2\n\tif wordSize == 10 {\n\t\tmask = (1 << uint(wordSize)) - 4\n\t}", ["C03"]),
    ("az-modemsg-gap", "aztec/encoder.go", "offset := center - 5 + i + i/5", "offset := center - 5 + i + i/6", ["C03"]),
    ("az-align-15", "aztec/encoder.go", "newOffset := i + i/15", "newOffset := i + i/16", ["C03"]),
    ("az-wordsize", "aztec/encoder.go", "4, 6, 6, 8, 8, 8, 8, 8, 8, 10, 10,", "4, 6, 6, 8, 8, 8, 8, 8, 10, 10, 10,", ["C03"]),
    ("az-layers-width", "aztec/encoder.go", "modeMessage.AddBits(layers-1, 5)", "modeMessage.AddBits(layers, 5)", ["C03"]),
    ("az-grid-unfix", "aztec/encoder.go", "i < baseMatrixSize/2; i, j = i+15, j+16", "i < baseMatrixSize/2-1; i, j = i+15, j+16", ["C03"]),
    ("az-ecc-percent", "aztec/encoder.go", "eccBits := ((bits.Len() * minECCPercent) / 100) + 11", "eccBits := ((bits.Len() * minECCPercent) / 200) + 11", ["C12"]),
    ("az-compact-limit", "aztec/encoder.go", "compact = i <= 3", "compact = i <= 2", ["C13", "C03"]),
    ("az-layer-range", "aztec/encoder.go", "if (compact && layers > max_nb_bits_compact) || (!compact && layers > max_nb_bits) {", "if (compact && layers > max_nb_bits_compact) || (!compact && layers > max_nb_bits+1) {", ["C10"]),
    ("az-punct-table", "aztec/state.go", "'(', ')', '*', '+', ',', '-', '.', '/', ':', ';', '<', '=', '>', '?',", "'(', ')', '*', '+', ',', '-', '.', '/', ';', ':', '<', '=', '>', '?',", ["C03"]),
    ("az-colour-unfix", "aztec/azteccode.go", "size, nil, color}", "size, nil, barcode.ColorScheme16}", ["C11"]),
    ("az-alias-unfix", "aztec/encoder.go", "code.content = append([]byte(nil), data...)", "code.content = data", ["C15"]),
    # --- C04 PDF417
    ("pdf-min-numeric", "pdf417/highlevel.go", "if numericCount >= min_numeric_count || numericCount == len(data) {", "if numericCount >= min_numeric_count-1 || numericCount == len(data) {", ["C04"]),
    ("pdf-count6", "pdf417/highlevel.go", "} else if (count % 6) == 0 {", "} else if (count % 6) == 0 || count == 11 {", ["C04"]),
    ("pdf-cluster", "pdf417/encoder.go", "table := rowNum % 3", "table := rowNum % 3\n\t\tif rowNum == 29 {\n\t\t\ttable = 0\n\t\t}", ["C04"]),
    ("pdf-right-indicator", "pdf417/encoder.go", "\tcase 0:\n\t\tx = columns - 1\n\tcase 1:\n\t\tx = (rows - 1) / 3\n", "\tcase 1:\n\t\tx = columns - 1\n\tcase 0:\n\t\tx = (rows - 1) / 3\n", ["C04"]),
    ("pdf-codeword-entry", "pdf417/codewords.go", "0x1d5c0, 0x1eaf0,", "0x1eaf0, 0x1d5c0,", ["C04"]),
    ("pdf-punct-table", "pdf417/highlevel.go", "10, 45, 46, 36, 47, 34, 124, 42, 40, 41, 63, 123, 125, 39, 0,", "10, 45, 46, 36, 47, 34, 124, 42, 41, 40, 63, 123, 125, 39, 0,", ["C04"]),
    ("pdf-factor", "pdf417/errorcorrection.go", "[]int{522, 568, 723, 809},", "[]int{522, 568, 723, 808},", ["C04", "C12"]),
    ("pdf-left-unfix", "pdf417/encoder.go", "x = (rows - 1) / 3\n\tcase 1:\n\t\tx = int(securityLevel) * 3\n\t\tx += (rows - 1) % 3\n\tcase 2:\n\t\tx = columns - 1\n\t}\n\treturn 30*(rowNum/3) + x\n}\n\nfunc getRight", "x = (rows - 3) / 3\n\tcase 1:\n\t\tx = int(securityLevel) * 3\n\t\tx += (rows - 1) % 3\n\tcase 2:\n\t\tx = columns - 1\n\t}\n\treturn 30*(rowNum/3) + x\n}\n\nfunc getRight", ["C04"]),
    ("pdf-level-indicator", "pdf417/encoder.go", "x = int(securityLevel) * 3\n\t\tx += (rows - 1) % 3\n\tcase 2:\n\t\tx = columns - 1", "x = int(securityLevel) * 3\n\t\tx += (rows - 1) % 3\n\t\tif securityLevel == 7 {\n\t\t\tx -= 3\n\t\t}\n\tcase 2:\n\t\tx = columns - 1", ["C04", "C12"]),
    ("pdf-eccount", "pdf417/errorcorrection.go", "return 1 << (uint(level) + 1)", "return 1 << (uint(level) + 1 - uint(level)/8)", ["C12", "C04"]),
    ("pdf-rows-offbyone", "pdf417/dimensions.go", "if c*r >= (m + 1 + k + c) {", "if c*r > (m + 1 + k + c) {", ["C13", "C04"]),
    ("pdf-level-9", "pdf417/encoder.go", "if securityLevel >= 9 {", "if securityLevel > 9 {", ["C10"]),
    # --- C05 Code 128
    ("c128-required-digits", "code128/encode.go", "requiredDigits := 4", "requiredDigits := 3", ["C05"]),
    ("c128-fnc4", "code128/encode.go", "case FNC4:\n\t\t\t\tidx = 101", "case FNC4:\n\t\t\t\tidx = 100", ["C05"]),
    ("c128-fnc1-rule", "code128/encode.go", "if i%2 == 0 && nextRunes[i] == FNC1 {", "if nextRunes[i] == FNC1 {", ["C05"]),
    ("c128-checksum-index", "code128/encode.go", "sum += i * int(idx)", "sum += (i + i/40) * int(idx)", ["C05", "C14"]),
    ("c128-table-row", "code128/encodingtable.go", "[]bool{true, false, false, true, false, false, true, true, false, false, false},", "[]bool{true, false, false, true, false, false, false, true, true, false, false},", ["C05"]),
    ("c128-aonly", "code128/encodingtable.go", '"\\u0005\\u0006\\u0007\\u0008\\u0009"', '"\\u0005\\u0007\\u0006\\u0008\\u0009"', ["C05"]),
    ("c128-len-80", "code128/encode.go", "if len(contentRunes) <= 0 || len(contentRunes) > 80 {\n\t\treturn nil, fmt.Errorf(\"content length should be between 1 and 80 runes but got %d\", len(contentRunes))\n\t}\n\tidxList := getCodeIndexList(contentRunes)\n\n\tif idxList == nil {\n\t\treturn nil, fmt.Errorf(\"\\\"%s\\\" could not be encoded\", content)\n\t}\n\n\tresult := new(utils.BitList)\n\tsum := 0", "if len(contentRunes) <= 0 || len(contentRunes) >= 80 {\n\t\treturn nil, fmt.Errorf(\"content length should be between 1 and 80 runes but got %d\", len(contentRunes))\n\t}\n\tidxList := getCodeIndexList(contentRunes)\n\n\tif idxList == nil {\n\t\treturn nil, fmt.Errorf(\"\\\"%s\\\" could not be encoded\", content)\n\t}\n\n\tresult := new(utils.BitList)\n\tsum := 0", ["C05", "C10"]),
    ("c128-sum-mod", "code128/encode.go", "sum = sum % 103\n\tresult.AddBit(encodingTable[sum]...)", "sum = sum % 103\n\tif sum == 102 {\n\t\tsum = 0\n\t}\n\tresult.AddBit(encodingTable[sum]...)", ["C05", "C14"]),
    # --- C06 EAN
    ("ean-g-bit", "ean/encoder.go", "[]bool{false, false, true, false, false, false, true},", "[]bool{false, false, true, false, false, true, true},", ["C06"]),
    ("ean-parity-7", "ean/encoder.go", "[]bool{false, true, false, true, false, true},", "[]bool{false, true, false, true, true, false},", ["C06"]),
    ("ean-x3", "ean/encoder.go", "x3 := len(code) == 7", "x3 := len(code) == 7 || len(code) == 12 && code[0] == '9' && code[1] == '9'", ["C06"]),
    ("ean-cpos", "ean/encoder.go", "if cpos == 7 {\n\t\t\tresult.AddBit(false, true, false, true, false)", "if cpos == 7 {\n\t\t\tresult.AddBit(false, true, false, true, true)", ["C06"]),
    ("ean-checksum-unfix", "ean/encoder.go", "checkSum = utils.RuneToInt(checkNum)", "checkSum = utils.RuneToInt(calcCheckNum(code))", ["C14"]),
    # --- C07 Code 39 / 93
    ("c39-ext-table", "code39/encoder.go", "58: `/Z`", "58: `/Y`", ["C07"]),
    ("c93-weight", "code93/encoder.go", "if weight++; weight > maxWeight {", "if weight++; weight >= maxWeight {", ["C07"]),
    ("c39-mod", "code39/encoder.go", "sum = sum % 43", "sum = sum % 42", ["C07", "C14"]),
    ("c39-pattern", "code39/encoder.go", "'Y': encodeInfo{34, []bool{true, true, false, false, true, false, true, true, false, true, false, true}},", "'Y': encodeInfo{34, []bool{true, true, false, false, true, false, true, false, true, true, false, true}},", ["C07"]),
    ("c39-gap", "code39/encoder.go", "if i != 0 {\n\t\t\tresult.AddBit(false)\n\t\t}", "if i != 0 && i != 31 {\n\t\t\tresult.AddBit(false)\n\t\t}", ["C07"]),
    ("c93-ext-table", "code93/encoder.go", '"\\u00f3H", "\\u00f3I", "\\u00f3J"', '"\\u00f3H", "\\u00f3J", "\\u00f3I"', ["C07"]),
    ("c93-unfix", "code93/encoder.go", "data := content\n\tif includeChecksum {\n\t\tdata += string(getChecksum(data, 20))", "data := content + string(getChecksum(content, 20))\n\tif includeChecksum {", ["C07"]),
    ("c39-star", "code39/encoder.go", "} else if strings.ContainsRune(content, '*') {", "} else if strings.HasPrefix(content, \"*\") {", ["C10", "C07"]),
    ("c39-checksum-unfix", "code39/encoder.go", "checkSum = info.value", "checkSum = info.value % 10", ["C14"]),
    # --- C08 Codabar / 2of5
    ("codabar-pattern", "codabar/encoder.go", "'$': []bool{true, false, true, true, false, false, true, false, true},", "'$': []bool{true, false, true, false, false, true, true, false, true},", ["C08"]),
    ("codabar-regexp", "codabar/encoder.go", "[ABCD][0123456789\\-\\$\\:/\\.\\+]*[ABCD]$", "[ABCD][0123456789\\-\\$\\:/\\.\\+]*[ABCDE]$", ["C08", "C10"]),
    ("2of5-wide", "twooffive/encoder.go", "false: encodeInfo{ // non-interleaved\n\t\t\tstart: []bool{true, true, false, true, true, false, true, false},\n\t\t\tend:   []bool{true, true, false, true, false, true, true},\n\t\t\twidths: map[bool]int{\n\t\t\t\ttrue:  3,", "false: encodeInfo{ // non-interleaved\n\t\t\tstart: []bool{true, true, false, true, true, false, true, false},\n\t\t\tend:   []bool{true, true, false, true, false, true, true},\n\t\t\twidths: map[bool]int{\n\t\t\t\ttrue:  4,", ["C08"]),
    ("itf-order", "twooffive/encoder.go", "a, o1 = encodingTable[*lastRune]\n\t\t\t\tb, o2 = encodingTable[r]", "b, o1 = encodingTable[*lastRune]\n\t\t\t\ta, o2 = encodingTable[r]", ["C08"]),
    ("2of5-addchecksum-unfix", "twooffive/encoder.go", "(10-sum%10)%10", "sum%10", ["C08"]),
    ("itf-dangling-unfix", "twooffive/encoder.go", "if lastRune != nil {", "if lastRune != nil && false {", ["C08", "C10"]),
    # --- C09 Scale
    ("scale-offset", "scaledbarcode.go", "offsetX := (width - (orgWidth * factor)) / 2\n\toffsetY", "offsetX := (width-(orgWidth*factor))/2 + 1\n\toffsetY", ["C09"]),
    ("scale-ge", "scaledbarcode.go", "if x >= orgWidth || y >= orgHeight {", "if x > orgWidth || y >= orgHeight {", ["C09"]),
    ("scale-1d-y", "scaledbarcode.go", "return bc.At(x, 0)", "return bc.At(x, y)", ["C09"]),
    ("scale-min-max", "scaledbarcode.go", "factor := int(math.Min(float64(width)/float64(orgWidth), float64(height)/float64(orgHeight)))", "factor := int(math.Max(float64(width)/float64(orgWidth), float64(height)/float64(orgHeight)))", ["C09"]),
    ("scale-fill-default", "scaledbarcode.go", "fill = v.ColorScheme().Background", "fill = v.ColorScheme().Background\n\t\tif bc.Metadata().CodeKind == TypePDF {\n\t\t\tfill = color.White\n\t\t}", ["C09"]),
    ("scale-checksum", "scaledbarcode.go", "return cs.CheckSum()\n\t}\n\treturn 0", "return cs.CheckSum() % 100\n\t}\n\treturn 0", ["C09", "C14"]),
    ("scale-content", "scaledbarcode.go", "func (bc *scaledBarcode) Content() string {\n\treturn bc.wrapped.Content()", "func (bc *scaledBarcode) Content() string {\n\tif bc.rect.Dx() == 3*bc.wrapped.Bounds().Dx() {\n\t\treturn \"\"\n\t}\n\treturn bc.wrapped.Content()", ["C09"]),
    # --- C10/C11 misc
    ("base1d-at-black", "utils/base1dcode.go", "return c.color.Foreground\n\t}\n\treturn c.color.Background", "return color.Black\n\t}\n\treturn c.color.Background", ["C11"]),
    ("qr-metadata-dim", "qr/qrcode.go", "return barcode.Metadata{barcode.TypeQR, 2}", "return barcode.Metadata{barcode.TypeQR, 1}", ["C11", "C09"]),
    ("dm-colormodel", "datamatrix/datamatrixcode.go", "func (c *datamatrixCode) ColorModel() color.Model {\n\treturn c.color.Model", "func (c *datamatrixCode) ColorModel() color.Model {\n\treturn color.Gray16Model", ["C11"]),
    ("pdf-content", "pdf417/encoder.go", "barcode.data = data", "barcode.data = strings.TrimRight(data, \"\\x00\")", []),
    # --- C15 / C16
    ("rs-nomutex", "utils/reedsolomon.go", "rs.m.Lock()\n\tdefer rs.m.Unlock()\n", "", ["C16"]),
    ("qr-leak-goroutine", "qr/alphanumeric.go", "if idx < 0 {\n\t\t\t\tbreak\n\t\t\t}", "if idx < -1 {\n\t\t\t\tbreak\n\t\t\t}", ["C16"]),
    ("c39-map-order", "code39/encoder.go", "'*': encodeInfo{-1,", "'#': encodeInfo{7, []bool{true, false, true, false, false, true, false, true, true, false, true, true}},\n\t'*': encodeInfo{-1,", ["C15", "C07", "C14"]),
    ("qr-global-scratch", "qr/blocks.go", "func splitToBlocks(data <-chan byte, vi *versionInfo) blockList {\n\tresult := make(blockList, vi.NumberOfBlocksInGroup1+vi.NumberOfBlocksInGroup2)", "var scratch = make(blockList, 0, 128)\n\nfunc splitToBlocks(data <-chan byte, vi *versionInfo) blockList {\n\tresult := scratch[:vi.NumberOfBlocksInGroup1+vi.NumberOfBlocksInGroup2]", ["C16"]),
]


def sh(cmd, cwd=None, env=None, timeout=1800):
    r = subprocess.run(cmd, cwd=cwd, env=env or ENV, stdout=subprocess.PIPE, stderr=subprocess.STDOUT, text=True, timeout=timeout)
    return r.returncode, r.stdout


def main():
    filt = sys.argv[1:]
    log = open(os.path.join(VERIF, "tools", "mutants.log"), "a")
    results = []
    for name, path, old, new, props in M:
        if filt and not any(f in name for f in filt):
            continue
        d = tempfile.mkdtemp(prefix="mut-", dir="/tmp")
        try:
            dst = os.path.join(d, "repo")
            shutil.copytree("/repo", dst, ignore=shutil.ignore_patterns(".git"))
            p = os.path.join(dst, path)
            s = open(p).read()
            if old not in s:
                print(f"{name:28s} PATTERN-NOT-FOUND")
                results.append((name, "pattern-not-found", {}))
                continue
            open(p, "w").write(s.replace(old, new, 1))
            rc, out = sh(["go", "build", "./..."], cwd=dst)
            if rc != 0:
                print(f"{name:28s} DOES-NOT-COMPILE\n{out[-400:]}")
                results.append((name, "no-compile", {}))
                continue
            rc, out = sh(["go", "test", "-vet=off", "-count=1", "./..."], cwd=dst)
            suite = "suite-pass" if rc == 0 else "SUITE-FAILS"
            verdicts = {}
            for prop in props:
                env = dict(ENV, VERIF_REPO_OVERRIDE=dst, VERIF_SEED=os.environ.get("VERIF_SEED", "0"))
                t0 = time.time()
                rc, out = sh([os.path.join(VERIF, "check"), prop, "quick"], cwd=VERIF, env=env)
                verdicts[prop] = {0: "MISSED", 1: "caught", 2: "inconclusive"}.get(rc, str(rc)) + f" {time.time() - t0:.0f}s"
                if rc != 1:
                    log.write(f"--- {name} {prop} rc={rc}\n{out[-1500:]}\n")
            line = f"{name:28s} {suite:11s} " + " ".join(f"{k}:{v}" for k, v in verdicts.items())
            print(line, flush=True)
            log.write(line + "\n")
            log.flush()
            results.append((name, suite, verdicts))
        finally:
            shutil.rmtree(d, ignore_errors=True)
    json.dump(results, open(os.path.join(VERIF, "tools", "mutants.last.json"), "w"), indent=1)


if __name__ == "__main__":
    main()
