#!/usr/bin/env python3
"""Regenerates /verif/MANIFEST.json from checkcfg.PROPS (run after adding a property)."""
import json, os, sys
VERIF = os.path.dirname(os.path.dirname(os.path.abspath(__file__)))
sys.path.insert(0, VERIF)
from checkcfg import PROPS
ALL = [f"C{n:02d}" for n in range(1, 19)]
checks = []
for pid in ALL:
    if pid not in PROPS:
        continue
    c = PROPS[pid]
    checks.append({
        "property_id": pid,
        "quick_cmd": f"./check {pid} quick",
        "thorough_cmd": f"./check {pid} thorough",
        "evidence_file": f"/verif/evidence/{pid}.json",
        "replay_cmd_template": f"./check {pid} --replay {{path}}",
        "engine": "props",
        "level_claimed": {"category": "exploration", "text": c["level_text"], "design_ref": c.get("design_ref", "DESIGN.md section 5")},
        "level_note": c["level_note"],
        "technique": c["technique"],
    })
na = [{"property_id": p, "reason": PROPS.get("_na", {}).get(p, "check not built yet in this round")} for p in ALL if p not in PROPS]
m = {
    "version": 1,
    "setup_cmd": "cd /verif/harness && GOFLAGS=-mod=mod GOPROXY=off GOSUMDB=off GOTOOLCHAIN=local go test -c -vet=off -o /dev/null ./props && GOFLAGS=-mod=mod GOPROXY=off GOSUMDB=off GOTOOLCHAIN=local go test -c -race -vet=off -o /dev/null ./props",
    "hooks": {"guard": "verif", "enable": "none needed: the harness is an external Go module with `replace github.com/boombuler/barcode => /repo`; no hook code exists in /repo",
              "baseline_off_cmd": "cd /repo && go test -vet=off -count=1 ./...", "source_commits": [], "add_only": True},
    "engines": [{"name": "props", "path": "/verif/harness", "serves_properties": [c["property_id"] for c in checks],
                 "kind_free_text": "Go test binary (pgregory.net/rapid v1.3.0 generators + exhaustive enumerators + independent reference decoders/models), sharded over 16 processes by the python driver ./check"}],
    "checks": checks,
    "notes": "Technique family: property-based testing and fuzzing (generated-input search against explicit oracles). See DESIGN.md.",
    "not_applicable": na,
}
json.dump(m, open(os.path.join(VERIF, "MANIFEST.json"), "w"), indent=1)
print("checks:", [c["property_id"] for c in checks], "na:", [n["property_id"] for n in na])
