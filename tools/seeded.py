#!/usr/bin/env python3
"""Runs the checks against the seeded changes kept in /verif/seeded/<name>/ (patch.diff, demo file, meta.json).

For each seeded change: copy /repo to a scratch directory, `git apply` the patch there, confirm it compiles and
the library's own suite passes, confirm the demonstration fails with the patch and passes without, then run the
quick tier of the listed properties (default: the property it targets; --all: every property) against the
patched copy via VERIF_REPO_OVERRIDE. /repo itself is never modified by this script.
Usage: tools/seeded.py [--all] [--inplace] [name ...]
  --inplace  apply to /repo itself with `git apply`, run, and undo with `git checkout -- .` (the procedure of the brief)
"""
import glob, json, os, shutil, subprocess, sys, tempfile, time

VERIF = os.path.dirname(os.path.dirname(os.path.abspath(__file__)))
ENV = dict(os.environ, GOFLAGS="-mod=mod", GOPROXY="off", GOSUMDB="off", GOTOOLCHAIN="local")
# development aid: run the checks of a frozen copy of /verif (so that the harness can be edited meanwhile); results are still written here
CHECK_DIR = os.environ.get("VERIF_CHECK_DIR", VERIF)
ALL = [f"C{n:02d}" for n in range(1, 19)]


def sh(cmd, cwd=None, env=None, timeout=3600):
    r = subprocess.run(cmd, cwd=cwd, env=env or ENV, stdout=subprocess.PIPE, stderr=subprocess.STDOUT, text=True, timeout=timeout)
    return r.returncode, r.stdout


def run_demo(repo, sdir, meta):
    demo_src = os.path.join(sdir, meta["demo_file"])
    dst = os.path.join(repo, meta["demo_path"])
    os.makedirs(os.path.dirname(dst), exist_ok=True)
    shutil.copy(demo_src, dst)
    try:
        rc, out = sh(["bash", "-c", meta["demo_cmd"]], cwd=repo)
    finally:
        os.remove(dst)
    return rc, out


def main():
    args = sys.argv[1:]
    every = "--all" in args
    inplace = "--inplace" in args
    names = [a for a in args if not a.startswith("--")]
    results = {}
    for sdir in sorted(glob.glob(os.path.join(VERIF, "seeded", "*"))):
        name = os.path.basename(sdir)
        if names and name not in names:
            continue
        meta = json.load(open(os.path.join(sdir, "meta.json")))
        props = ALL if every else meta.get("checks_to_run", [meta["property"]])
        tmp = tempfile.mkdtemp(prefix="seeded-", dir="/tmp")
        try:
            clean = os.path.join(tmp, "clean")
            shutil.copytree("/repo", clean, ignore=shutil.ignore_patterns(".git"))
            sh(["git", "init", "-q"], cwd=clean)
            rc_clean, _ = run_demo(clean, sdir, meta)
            if inplace:
                repo = "/repo"
                rc, out = sh(["git", "-C", "/repo", "apply", os.path.join(sdir, "patch.diff")])
            else:
                repo = os.path.join(tmp, "patched")
                shutil.copytree(clean, repo)
                rc, out = sh(["git", "apply", os.path.join(sdir, "patch.diff")], cwd=repo)
            if rc != 0:
                print(f"{name}: PATCH DOES NOT APPLY\n{out}")
                continue
            try:
                rc_build, out = sh(["go", "build", "./..."], cwd=repo)
                rc_suite, out = sh(["go", "test", "-vet=off", "-count=1", "./..."], cwd=repo)
                rc_demo, _ = run_demo(repo, sdir, meta)
                verdicts = {}
                for p in props:
                    env = dict(ENV, VERIF_SEED=os.environ.get("VERIF_SEED", "0"))
                    if not inplace:
                        env["VERIF_REPO_OVERRIDE"] = repo
                    t0 = time.time()
                    rc, out = sh([os.path.join(CHECK_DIR, "check"), p, "quick"], cwd=CHECK_DIR, env=env)
                    verdicts[p] = {0: "missed", 1: "CAUGHT", 2: "inconclusive"}.get(rc, str(rc))
                    if rc == 1:
                        v = [l for l in out.splitlines() if "check=" in l or l.startswith("VIOLATION")]
                        verdicts[p] += " (" + " | ".join(v)[:300] + ")"
                    verdicts[p] += f" {time.time() - t0:.0f}s"
            finally:
                if inplace:
                    sh(["git", "-C", "/repo", "checkout", "--", "."])
            status = f"build={'ok' if rc_build == 0 else 'FAIL'} suite={'pass' if rc_suite == 0 else 'FAIL'} demo_on_patched={'fails' if rc_demo != 0 else 'PASSES'} demo_on_clean={'passes' if rc_clean == 0 else 'FAILS'}"
            print(f"{name} [{meta['property']}] {status}")
            for p, v in verdicts.items():
                print(f"    {p}: {v}")
            sys.stdout.flush()
            results[name] = {"status": status, "verdicts": verdicts}
            # keep the record inside the seeded directory itself
            notes = {}
            try:
                notes = json.load(open(os.path.join(VERIF, "seeded", "NOTES.json")))
            except Exception:
                pass
            meta["verification_by_harness_author"] = {
                "procedure": "scratch copy of /repo at the fix commits, `git apply patch.diff`, `go build ./...`, `go test -vet=off -count=1 ./...` "
                             "(library suite), demonstration copied to demo_path and run with demo_cmd on the patched and on the clean copy, then "
                             "`VERIF_REPO_OVERRIDE=<patched copy> ./check <ID> quick`" + (" (here: applied to /repo itself and undone with git checkout)" if inplace else ""),
                "build_ok": rc_build == 0, "library_suite_passes_with_patch": rc_suite == 0,
                "demo_fails_with_patch": rc_demo != 0, "demo_passes_on_clean_tree": rc_clean == 0,
                "checks": verdicts,
            }
            if name in notes:
                meta["strengthening_needed"] = notes[name]
            json.dump(meta, open(os.path.join(sdir, "meta.json"), "w"), indent=1, ensure_ascii=False)
        finally:
            shutil.rmtree(tmp, ignore_errors=True)
    json.dump(results, open(os.path.join(VERIF, "tools", "seeded.last.json"), "w"), indent=1)


if __name__ == "__main__":
    main()
