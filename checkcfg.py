"""Per-property configuration of ./check: which Go tests form the check, budgets per tier,
the non-triviality rule and the assumptions that go into the evidence file."""

COMMON_ASSUMPTIONS = [
    "the Go toolchain, the race detector and pgregory.net/rapid v1.3.0 behave as documented",
    "oracles (reference decoders / models in harness/ref) are written from the standards and self-tested at the start of every run; "
    "a misreading of a standard shared by the encoder's author and the oracle's author would go unnoticed",
    "absence of a violation in the explored cases is not a proof of absence",
]

PROPS = {}

PROPS["C18"] = {
    "technique": "model-based stateful property testing (rapid) + bounded exhaustive enumeration of operation sequences against a []bool model",
    "level_text": "exploration: random and exhaustively enumerated operation sequences on utils.BitList are compared with a []bool reference model after every step (all bits, packed bytes, channel view); right level because the property quantifies over unbounded histories and the model is trivially correct",
    "level_note": "trusted: the []bool model and the packing function in the harness; inputs limited to indices < Len() and AddBits counts 0..64",
    "parts": [
        {"name": "regression", "kind": "plain", "test": "TestReplayDir"},
        {"name": "exhaustive", "kind": "plain", "test": "TestC18Exhaustive"},
        {"name": "rapid", "kind": "rapid", "test": "TestC18Rapid", "checks": {"quick": 40000, "thorough": 1500000}},
    ],
    "rule": "cases are operation sequences (NewBitList(n)/zero value, then up to 25 of AddBit/AddBits/AddByte/bulk AddBit(...)/SetBit/GetBit/"
            "GetBytes/IterateBytes) executed against utils.BitList and a []bool model, compared after every step; lengths are biased to "
            "31/32/33, 4095/4096/4097 and the 128-/1024-word growth steps; exhaustive part: every sequence up to the depth bound over a 9-op "
            "alphabet from 7 start states. Non-trivial = at least 2 operations and (the list grew past its initial allocation or a SetBit "
            "happened after an append); distinct by the full operation sequence.",
    "assumptions": COMMON_ASSUMPTIONS + ["indices passed to SetBit/GetBit are always below Len() (the documented domain)",
                                         "AddBits counts are 0..64 (an int has 64 bits)"],
}
