"""Per-property configuration of ./check: which Go tests form the check, budgets per tier,
the non-triviality rule and the assumptions that go into the evidence file."""

COMMON_ASSUMPTIONS = [
    "the Go toolchain, the race detector and pgregory.net/rapid v1.3.0 behave as documented",
    "oracles (reference decoders / models in harness/ref) are written from the standards and self-tested at the start of every run; "
    "a misreading of a standard shared by the encoder's author and the oracle's author would go unnoticed",
    "absence of a violation in the explored cases is not a proof of absence",
    "the library is built and run for the host platform (linux/amd64, 64-bit int); only the deterministic round-trip parts of C01-C08 also run in a 32-bit build (GOARCH=386)",
]

PROPS = {}

PROPS["C18"] = {
    "technique": "model-based stateful property testing (rapid) + bounded exhaustive enumeration of operation sequences against a []bool model",
    "level_text": "exploration: random and exhaustively enumerated operation sequences on utils.BitList are compared with a []bool reference model after every step (all bits, packed bytes, channel view); right level because the property quantifies over unbounded histories and the model is trivially correct",
    "level_note": "trusted: the []bool model and the packing function in the harness; inputs limited to indices < Len() and AddBits counts 0..64",
    "parts": [
        {"name": "regression", "kind": "plain", "test": "TestReplayDir"},
        {"name": "exhaustive", "kind": "plain", "test": "TestC18Exhaustive"},
        {"name": "rapid", "kind": "rapid", "test": "TestC18Rapid", "checks": {"quick": 40000, "thorough": 1500000}},
    ],
    "rule": "cases are operation sequences (NewBitList(n)/zero value, then up to 25 of AddBit/AddBits/AddByte/bulk AddBit(...)/SetBit/GetBit/"
            "GetBytes/IterateBytes) executed against utils.BitList and a []bool model, compared after every step; lengths are biased to "
            "31/32/33, 4095/4096/4097 and the 128-/1024-word growth steps; exhaustive part: every sequence up to the depth bound over a 9-op "
            "alphabet from 7 start states. Non-trivial = at least 2 operations and (the list grew past its initial allocation or a SetBit "
            "happened after an append); distinct by the full operation sequence.",
    "assumptions": COMMON_ASSUMPTIONS + ["indices passed to SetBit/GetBit are always below Len() (the documented domain)",
                                         "AddBits counts 0..255 (the parameter is a byte); bits above position 63 of the integer are its sign (two's complement)"],
}

PROPS["C17"] = {
    "technique": "exhaustive enumeration of all operand pairs per field + rapid-generated polynomials and Reed-Solomon call histories against schoolbook GF(2^m) arithmetic and an LFSR reference encoder",
    "level_text": "exploration with exhaustive sub-domains: every operand pair of all 6 fields (x base 0/1) is compared with carry-less multiply-and-reduce arithmetic (Multiply, commutativity, Divide, Invers), all triples of the small fields for associativity; random polynomials check dividend = q*d + r; histories of Encode calls on one encoder are compared with an independent shift-register encoder and root evaluation",
    "level_note": "trusted: harness/ref/gf.go (schoolbook arithmetic, ~120 lines, no tables); domain: divisor != 0, 1 <= check symbols <= min(600, size-1), symbols within the field",
    "parts": [
        {"name": "regression", "kind": "plain", "test": "TestReplayDir"},
        {"name": "field-exhaustive", "kind": "plain", "test": "TestC17FieldExhaustive"},
        {"name": "rs-degrees", "kind": "plain", "test": "TestC17RSDegrees"},
        {"name": "rs-concurrent", "kind": "plain", "test": "TestC17RSConcurrent"},
        {"name": "rapid", "kind": "rapid", "test": "TestC17Rapid", "checks": {"quick": 6000, "thorough": 300000}},
    ],
    "rule": "exhaustive: all (a,b) of GF(16), GF(64), GF(256)/0x11D, GF(256)/0x12D, GF(1024), GF(4096), each with base 0 and 1 (non-trivial = a != 0, "
            "distinct by enumeration); all triples for associativity up to 64 (quick) / 256 (thorough) elements. rapid: 200 random triples per case "
            "for the larger fields; polynomial pairs of length 1..60 incl. zero polynomial, leading zeros, monomials (non-trivial = both non-zero); "
            "Reed-Solomon histories of 1..6 Encode calls on one encoder with check-symbol counts 1..min(600,size-1) in ascending/descending/"
            "repeated/mixed order and data lengths 0..300 (non-trivial = at least 2 calls); rs-degrees: every count once ascending and descending.",
    "assumptions": COMMON_ASSUMPTIONS + ["Divide/Invers are only required for non-zero divisors; Encode only for 1 <= eccCount <= size-1"],
}

RT_NOTE = "trusted: the reference decoder and frozen tables in harness/ref (self-tested at start against structural rules and against the expected symbols of the library's own test-suite, parsed as data)"

PROPS["C05"] = {
    "technique": "round-trip property testing: rapid-generated Code 128 texts (code-set transition grammar) + exhaustive short strings, decoded by an independent reference decoder",
    "level_text": "exploration: generated texts over the 132-symbol alphabet (digit runs, FNC1 inside digit runs, control/lower alternation, 79/80/81 rune boundary) are encoded with both checksum variants, decoded from the pixels by an independent Code 128 decoder (frozen pattern table, sets A/B/C, modulo-103 check) and compared with the input; all strings of length 1..2 and short strings over a sub-alphabet are enumerated",
    "level_note": RT_NOTE,
    "parts": [
        {"name": "regression", "kind": "plain", "test": "TestReplayDir"},
        {"name": "hash-twins", "kind": "plain", "test": "TestC05Twins"},
        {"name": "magic", "kind": "plain", "test": "TestC05Magic"},
        {"name": "exhaustive", "kind": "plain", "test": "TestC05Exhaustive"},
        {"name": "rapid", "kind": "rapid", "test": "TestC05Rapid", "checks": {"quick": 120000, "thorough": 4000000}},
    ],
    "universes": {"code128_patterns": [str(i) for i in range(106)], "set_transitions": ["AB", "AC", "BA", "BC", "CA", "CB"], "start_set": ["A", "B", "C"]},
    "rule": "content = 1..8 grammar segments (digit runs 1..12, FNC1 at even/odd offsets in digit runs, control chars, lower case, A/B-common chars, FNC1-4, DEL, "
            "long tails reaching 78..85 runes) truncated around the 80-rune limit, 1 in 10 deliberately invalid; x both checksum variants. "
            "Non-trivial = accepted and the symbol contains at least one code-set switch or FNC character; distinct by (content, variant).",
    "assumptions": COMMON_ASSUMPTIONS,
}

PROPS["C06"] = {
    "technique": "exhaustive enumeration (all 7- and 8-digit inputs in thorough) + covering set of EAN-13 (first digit, position, digit) cells + rapid-generated valid/invalid inputs, decoded by an independent EAN decoder with its own GS1 check digit",
    "level_text": "exploration, exhaustive for EAN-8 in the thorough tier: acceptance must equal the independent rule (digits, length 7/12, or 8/13 with the right GS1 check digit), the 67/95-module symbol is decoded through own L/G/R tables and parity patterns and must equal Content() and the completed input; kind string checked",
    "level_note": RT_NOTE,
    "parts": [
        {"name": "regression", "kind": "plain", "test": "TestReplayDir"},
        {"name": "magic", "kind": "plain", "test": "TestC06Magic"},
        {"name": "hash-twins", "kind": "plain", "test": "TestC06Twins"},
        {"name": "covering", "kind": "plain", "test": "TestC06Covering"},
        {"name": "exhaustive", "kind": "plain", "test": "TestC06Exhaustive"},
        {"name": "rapid", "kind": "rapid", "test": "TestC06Rapid", "checks": {"quick": 300000, "thorough": 3000000}},
    ],
    "universes": {"ean13_cells": [f"{a}/{p}/{d}" for a in "0123456789" for p in range(1, 13) for d in "0123456789"],
                  "ean8_cells": [f"{p}/{d}" for p in range(8) for d in "0123456789"]},
    "rule": "rapid: 7/8/12/13-digit strings with right and random check digits, wrong lengths 0..20, non-digits at every position, the encoder's internal markers "
            "'B'/'F' as last characters, multi-byte runes. covering: each of the 1200 (first digit, position, digit) cells of EAN-13 x 10 completions. "
            "exhaustive: quick every 97th 7-digit string with its ten 8-digit extensions, thorough all 10^7 + 10^8. Non-trivial = accepted; distinct by input string.",
    "assumptions": COMMON_ASSUMPTIONS,
}

PROPS["C07"] = {
    "technique": "round-trip property testing with exhaustive enumeration of lengths 0..2 (basic: 0..3 in thorough) in all option mixes, independent Code 39 / Code 93 decoders and full-ASCII resolution",
    "level_text": "exploration with exhaustive short-string sub-domain: every generated text x includeChecksum x fullASCII x {Code 39, Code 93} is encoded, the bars are decoded with independent pattern tables (Code 39 built from its 2-of-5 structure), check characters must be present iff requested and correct (mod 43; C/K mod 47 with weights 20/15), the remaining characters must resolve to exactly the input",
    "level_note": RT_NOTE,
    "parts": [
        {"name": "regression", "kind": "plain", "test": "TestReplayDir"},
        {"name": "long", "kind": "plain", "test": "TestC07Long"},
        {"name": "hash-twins", "kind": "plain", "test": "TestC07Twins"},
        {"name": "magic", "kind": "plain", "test": "TestC07Magic"},
        {"name": "exhaustive", "kind": "plain", "test": "TestC07Exhaustive"},
        {"name": "rapid", "kind": "rapid", "test": "TestC07Rapid", "checks": {"quick": 100000, "thorough": 3000000}},
    ],
    "rule": "rapid: strings of length 0..60 over the 43-character alphabet (basic) or ASCII 0..127 (full ASCII), 1 in 6 with an invalid tail ('*', lower case, "
            "runes > 127, invalid UTF-8); exhaustive: all strings of length 0..2 (basic alphabet 0..3 in thorough). Non-trivial = accepted with length >= 1; "
            "distinct by (symbology, flags, content).",
    "assumptions": COMMON_ASSUMPTIONS + ["Code 93 basic mode with the four shift placeholders U+00F1..F4 in the input is not judged (either outcome allowed)"],
}

PROPS["C08"] = {
    "technique": "round-trip property testing with exhaustive enumeration (Codabar strings up to length 6, digit strings up to length 7 in thorough) against run-length reference decoders and an independent 3-1 weighted check",
    "level_text": "exploration with exhaustive sub-domains: acceptance must equal the stated grammar (Codabar start/body/stop; non-empty digits, even length for interleaved), accepted symbols are decoded from run lengths (own narrow/wide tables, start/stop, gaps) and must equal the input; AddCheckSum must return input+digit with the 3-1 weighted sum (check digit weight 1) divisible by ten",
    "level_note": RT_NOTE + "; element widths: narrow = 1 module, wide = 2 or 3 modules (the pinned test-suite fixes 2-module wide bars in the standard start/stop and 3-module wide data bars)",
    "parts": [
        {"name": "regression", "kind": "plain", "test": "TestReplayDir"},
        {"name": "long", "kind": "plain", "test": "TestC08Long"},
        {"name": "hash-twins", "kind": "plain", "test": "TestC08Twins"},
        {"name": "magic", "kind": "plain", "test": "TestC08Magic"},
        {"name": "exhaustive", "kind": "plain", "test": "TestC08Exhaustive"},
        {"name": "rapid", "kind": "rapid", "test": "TestC08Rapid", "checks": {"quick": 100000, "thorough": 3000000}},
    ],
    "universes": {"codabar_chars": list("0123456789-$:/.+ABCD")},
    "rule": "rapid: Codabar start+0..40 body characters+stop with 1 in 3 mutated (missing start/stop, doubled, trailing newline, foreign characters); digit strings "
            "of length 1..60 for standard/interleaved/AddCheckSum with 1 in 5 mutated (empty, letters, multi-byte runes giving an even byte length, sign). "
            "exhaustive: all strings over the 20 Codabar characters up to length 4/6, all digit strings up to length 5/7 x 3 entry points. "
            "Non-trivial = accepted; distinct by (entry point, content).",
    "assumptions": COMMON_ASSUMPTIONS,
}

PROPS["C14"] = {
    "technique": "property testing of CheckSum() against check values recomputed from the decoded symbol (EAN GS1 digit, Code 128 mod 103, Code 39 mod 43), through 0..3 rounds of Scale; exhaustive over 7-digit EAN inputs in thorough",
    "level_text": "exploration: for generated EAN/Code 128/Code 39 contents the reported CheckSum() must equal the value recomputed independently from the decoded image, the drawn check character must carry that value, and the value must survive up to 3 scalings",
    "level_note": RT_NOTE,
    "parts": [
        {"name": "regression", "kind": "plain", "test": "TestReplayDir"},
        {"name": "exhaustive", "kind": "plain", "test": "TestC14Exhaustive"},
        {"name": "rapid", "kind": "rapid", "test": "TestC14Rapid", "checks": {"quick": 100000, "thorough": 2000000}},
        {"name": "huge", "kind": "plain", "test": "TestC14Huge", "tiers": ("thorough",)},
    ],
    "rule": "contents from the C05/C06/C07 generators (Code 39 with and without check character, basic and full ASCII), each followed by 0..3 Scale rounds with "
            "factor 1..3 and margins 0..50; exhaustive: 7-digit EAN inputs (quick every 89th, thorough all), all Code 39 strings of length 1..2, all Code 128 "
            "strings of length 1..2. Non-trivial = accepted; distinct by (kind, content, options, scale list).",
    "assumptions": COMMON_ASSUMPTIONS,
}

QR_LAYOUTS = [f"{v}-{l}" for v in range(1, 41) for l in "LMQH"]

PROPS["C01"] = {
    "technique": "round-trip property testing: boundary-directed rapid generation over (mode, level, target version, length at/around capacity) + deterministic sweep of all 160 layouts x 3 modes, decoded by an independent strict ISO 18004 reader",
    "level_text": "exploration: every generated (content, level, mode) the encoder accepts is read back from the pixels by an independent reader that verifies finder/separator/timing/alignment/dark modules, both BCH-valid format copies, both Golay-valid version copies, unmasking, zig-zag placement, zero remainder bits, block de-interleaving by a frozen ISO block table, zero RS syndromes for every block, segment syntax, terminator and EC/11 padding; decoded bytes must equal the input and representable content must be accepted",
    "level_note": RT_NOTE + "; QR block and alignment tables generated from an unrelated implementation found on this machine (npm qrcode-terminal, one known error corrected) and validated against the module-count formula; mask choice and segmentation are not judged",
    "parts": [
        {"name": "regression", "kind": "plain", "test": "TestReplayDir"},
        {"name": "procs", "kind": "plain", "test": "TestC01Procs"},
        {"name": "hash-twins", "kind": "plain", "test": "TestC01Twins"},
        {"name": "painted", "kind": "plain", "test": "TestC01Painted"},
        {"name": "magic", "kind": "plain", "test": "TestC01Magic"},
        {"name": "sweep", "kind": "plain", "test": "TestC01Sweep", "plain_shards": 2},
        {"name": "zero-ecc", "kind": "plain", "test": "TestC01ZeroECC"},
        {"name": "rapid", "kind": "rapid", "test": "TestC01Rapid", "checks": {"quick": 16000, "thorough": 400000}},
    ],
    "universes": {"qr_layouts": QR_LAYOUTS, "qr_versions": [str(v) for v in range(1, 41)], "qr_masks": [str(m) for m in range(8)],
                  "qr_layout_x_mode": [f"{x}-{m}" for x in QR_LAYOUTS for m in ("numeric", "alnum", "byte")]},
    "rule": "case = (content, level, mode): target version drawn with probability ~ 1/size^2, length drawn at capacity, capacity-1, capacity+1, the smallest "
            "length needing that version, or uniformly in between; content class digits/alphanumeric/bytes (first 24 characters drawn individually, the rest from "
            "a drawn pattern seed) with 15% perturbations (last character leaving the class, sign characters at 3-digit group starts, hostile bytes); sweep = every "
            "(version, level) x {numeric, alphanumeric, byte} at capacity (thorough: also lower boundary and Auto). Non-trivial = accepted by the encoder; "
            "distinct by (level, mode, content).",
    "assumptions": COMMON_ASSUMPTIONS,
}

PROPS["C02"] = {
    "technique": "round-trip property testing: codeword-budget-directed rapid generation (size index, budget at/around capacity, token grammar) + sweep of all 24 sizes x 3 content shapes, decoded by an independent ECC 200 reader (own Annex-F placement)",
    "level_text": "exploration: every accepted content is read back by an independent reader: size in the 24-row table, solid L and clock track of every region, Annex-F module placement incl. corner cases and the fixed lower-right pattern, block de-interleaving by stream stride, zero RS syndromes per block over GF(256)/0x12D, ASCII encodation with digit pairs, upper shift and 253-state randomised pads; decoded bytes must equal the input; contents up to 1558 codewords must be accepted",
    "level_note": RT_NOTE + "; 144x144 block layout per ISO 16022 (stream codeword p belongs to block p mod 10)",
    "parts": [
        {"name": "regression", "kind": "plain", "test": "TestReplayDir"},
        {"name": "procs", "kind": "plain", "test": "TestC02Procs"},
        {"name": "hash-twins", "kind": "plain", "test": "TestC02Twins"},
        {"name": "painted", "kind": "plain", "test": "TestC02Painted"},
        {"name": "magic", "kind": "plain", "test": "TestC02Magic"},
        {"name": "sweep", "kind": "plain", "test": "TestC02Sweep", "plain_shards": 2},
        {"name": "zero-ecc", "kind": "plain", "test": "TestC02ZeroECC"},
        {"name": "rapid", "kind": "rapid", "test": "TestC02Rapid", "checks": {"quick": 30000, "thorough": 600000}},
    ],
    "universes": {"dm_sizes": [str(n) for n in (10, 12, 14, 16, 18, 20, 22, 24, 26, 32, 36, 40, 44, 48, 52, 64, 72, 80, 88, 96, 104, 120, 132, 144)],
                  "dm_blocks": ["1", "2", "4", "6", "8", "10"], "dm_corner_cases": ["0", "1", "2", "3", "4"]},
    "rule": "case = byte string built for a drawn codeword budget: size index 0..23, budget = capacity / capacity-1 / capacity-2 / smallest budget needing the size / "
            "uniform / 1559..1561 (rejected side); tokens: ASCII byte, digit pair, byte >= 128 (upper shift), odd digit runs, digit-letter-digit; exact budget "
            "reached with the reference codeword counter. Non-trivial = accepted; distinct by content.",
    "assumptions": COMMON_ASSUMPTIONS,
}

PROPS["C02"]["universes"]["dm_corner_cases"] = ["0", "1", "2"]  # what square symbols can trigger (own placement: none / corner 1 / corner 2)

PROPS["C04"] = {
    "technique": "round-trip property testing: grammar-based rapid generation of compaction-mode mixtures x 9 security levels + length sweep through all row/column shapes, decoded by an independent ISO 15438 reader",
    "level_text": "exploration: every accepted (data, level) is read back by an independent reader: start/stop pattern per row, codeword patterns looked up in the frozen table of the row's cluster, left/right row indicators must encode row number, (rows-1)/3, (rows-1) mod 3, columns-1 and the level exactly as ISO 15438 lays them out, length descriptor + 2^(level+1) = rows x columns, zero syndromes over GF(929) at 3^1..3^k, text (4 sub-modes, latches, shifts, pad 29, 913), byte (901/924) and numeric (902) compaction decoded; bytes must equal the input",
    "level_note": RT_NOTE + "; the 3x929 pattern table is a frozen copy of the pinned tree validated structurally (17 modules, 4+4 elements of width 1..6, cluster formula, distinctness) - no second source exists offline; shape choice and compaction choices are not judged",
    "parts": [
        {"name": "regression", "kind": "plain", "test": "TestReplayDir"},
        {"name": "procs", "kind": "plain", "test": "TestC04Procs"},
        {"name": "hash-twins", "kind": "plain", "test": "TestC04Twins"},
        {"name": "painted", "kind": "plain", "test": "TestC04Painted"},
        {"name": "magic", "kind": "plain", "test": "TestC04Magic"},
        {"name": "sweep", "kind": "plain", "test": "TestC04Sweep", "plain_shards": 2},
        {"name": "rapid", "kind": "rapid", "test": "TestC04Rapid", "checks": {"quick": 50000, "thorough": 700000}},
    ],
    "universes": {"pdf_patterns": [f"{c}/{v}" for c in range(3) for v in range(929)], "pdf_rows": [str(r) for r in range(2, 31)],
                  "pdf_cols": [str(c) for c in range(2, 31)], "pdf_levels": [str(l) for l in range(9)],
                  "pdf_submode_transitions": ["alpha>lower", "alpha>mixed", "lower>mixed", "lower>alpha", "mixed>alpha", "mixed>lower", "mixed>punct", "punct>alpha"],
                  "pdf_byte_segments": ["byte924"] + [f"byte901 rem{r}" for r in range(1, 6)]},
    "rule": "content = 0..10 grammar segments (upper/lower/mixed/punct runs, paths into the punct sub-mode, digit runs of 1..90 with emphasis on 12/13/14 and "
            "43..46/87..90, byte runs of length 1..14 (every length mod 6), single bytes between text runs >= 6, text ending in punct sub-mode + single byte + "
            "punctuation, UTF-8 sequences, short text inside byte runs, case alternation, arbitrary bytes, bulk fills of 100..900 characters), capped at 2800 "
            "bytes, x level 0..8; sweep = homogeneous contents (digits/upper/high bytes/mixed text) of every 7th (thorough: every) length up to beyond "
            "capacity. Non-trivial = accepted and (at least 2 compaction segments or a text sub-mode change); distinct by (level, content).",
    "assumptions": COMMON_ASSUMPTIONS + ["rejection is only judged when even 2 codewords per byte would fit into 900 codewords (capacity boundaries are judged in C10/C13)"],
}

PROPS["C04"]["universes"]["pdf_submode_transitions"].remove("lower>alpha")  # the encoder reaches alpha from lower only through 'as' shifts or via mixed

AZTEC_SIZES = [f"compact-{l}" for l in range(1, 5)] + [f"full-{l}" for l in range(1, 33)]

PROPS["C03"] = {
    "technique": "round-trip property testing: grammar-based rapid generation of mode-switch-heavy payloads x ecc% x 37 layer requests + sweep over all 36 sizes, all byte values and all mode-pair triples, decoded by an independent ISO 24778 reader",
    "level_text": "exploration: every accepted (payload, ecc%, layers) is read back by an independent reader: bullseye rings, orientation marks, RS-valid mode message over GF(16) agreeing with the symbol size, complete reference grid, spiral data read-out over own geometry, RS-valid data+check words over GF(2^6/8/10/12), no all-zero/all-one data word, un-stuffing, Upper/Lower/Mixed/Punct/Digit/Binary-shift decoding from the standard's tables, trailing bits all 1; bytes must equal the payload and explicit layer requests must be honoured exactly",
    "level_note": RT_NOTE + "; the data-layer geometry follows the reading used by the ZXing reader and is self-tested on two externally sourced symbols (compact 3-layer, full 6-layer); which mode path the encoder takes is not judged; acceptance near capacity is judged in C10/C13",
    "parts": [
        {"name": "regression", "kind": "plain", "test": "TestReplayDir"},
        {"name": "procs", "kind": "plain", "test": "TestC03Procs"},
        {"name": "hash-twins", "kind": "plain", "test": "TestC03Twins"},
        {"name": "painted", "kind": "plain", "test": "TestC03Painted"},
        {"name": "magic", "kind": "plain", "test": "TestC03Magic"},
        {"name": "known-findings", "kind": "plain", "test": "TestC03KnownFindings"},
        {"name": "sweep", "kind": "plain", "test": "TestC03Sweep", "plain_shards": 2},
        {"name": "rapid", "kind": "rapid", "test": "TestC03Rapid", "checks": {"quick": 30000, "thorough": 360000}},
    ],
    "universes": {"aztec_sizes": AZTEC_SIZES, "aztec_word_sizes": ["6", "8", "10", "12"]},
    "rule": "payload = 0..9 grammar segments (upper, lower, digit, mixed-control, punctuation runs, the four two-character punctuation pairs, binary runs of "
            "1,2,3,5,30..33,61..64,80 bytes, arbitrary bytes, single foreign characters inside lower/digit runs, pairs next to digits, byte-value windows, bulk fill "
            "towards the capacity of the requested size) x ecc% in {0,1,5,10,23,25,33,50,75,90,100,150,300} or U(0..100) x layers (0: 50%, -4..-1, 1..32, invalid); "
            "sweep = 36 sizes x 3 ecc% x 3 content kinds by explicit request, every byte value in three contexts, all 13^3 triples of mode representatives, "
            "binary runs at 30..64/100/2046/2047 (thorough: 2077..2110). Non-trivial = accepted and the reader saw at least one mode transition or "
            "binary shift; distinct by (ecc%, layers, payload).",
    "assumptions": COMMON_ASSUMPTIONS,
}

PROPS["C12"] = {
    "technique": "property testing over (content, error-correction parameter) with the independent readers as oracle: declared level read back from format information / row indicators / mode message, check-codeword counts validated against ISO tables and Reed-Solomon syndromes",
    "level_text": "exploration: for generated contents and uniformly drawn EC parameters the declared strength is read back from the rendered symbol and compared with the request; QR blocks must be RS-valid under the ISO block layout of (version, requested level); PDF417 must carry exactly 2^(level+1) valid check codewords and name the level in both indicators; DataMatrix must be RS-valid with the ECC 200 count of its size; Aztec check words x word size must be at least pct% of a sound lower bound of the data bits",
    "level_note": RT_NOTE + "; Aztec: the number of data bits is bounded from below by the position of the last decoded character (the encoder's own bit count cannot be smaller)",
    "parts": [
        {"name": "regression", "kind": "plain", "test": "TestReplayDir"},
        {"name": "sweep", "kind": "plain", "test": "TestC12Sweep"},
        {"name": "rapid", "kind": "rapid", "test": "TestC12Rapid", "checks": {"quick": 16000, "thorough": 300000}},
    ],
    "rule": "cases from the C01-C04 generators with the EC parameter drawn uniformly (QR L/M/Q/H, PDF417 0..8, Aztec ecc% from a fixed list or U(0..100) with "
            "layers 0/-4..-1/1..32); sweep = all 160 QR layouts at capacity, 9 PDF417 levels x 6 sizes, 24 DataMatrix sizes, Aztec 8 percentages x payload "
            "lengths 1..1500 (x1.25 steps) x 2 content kinds. Non-trivial = accepted by the encoder; distinct by (symbology, parameter, content).",
    "assumptions": COMMON_ASSUMPTIONS,
}

PROPS["C13"] = {
    "technique": "boundary-sweep + rapid property testing of symbol size against reference capacity tables (QR, DataMatrix), a metamorphic/differential relation for Aztec (every smaller explicit size must be refused, the chosen one must reproduce the image) and a padding predicate for PDF417",
    "level_text": "exploration with complete boundary sweeps: QR version <= the minimal version computed from the frozen ISO tables for every (version, level, mode) at capacity and at capacity(v-1)+1, also via Auto; DataMatrix size == smallest table size holding the ASCII-encodation codeword count at every boundary; Aztec: after an automatic encode, all explicit requests of smaller dimension are refused and the explicit request for the chosen size yields the identical image; PDF417: trailing pad codewords < columns and 2..30 rows/columns",
    "level_note": RT_NOTE + "; Aztec minimality is relative to the encoder's own acceptance rule for explicit sizes (that rule itself is checked by C03/C12); large payloads in the quick tier test the five most plausible smaller sizes",
    "parts": [
        {"name": "regression", "kind": "plain", "test": "TestReplayDir"},
        {"name": "sweep", "kind": "plain", "test": "TestC13Sweep"},
        {"name": "twin-histories", "kind": "plain", "test": "TestC13QRTwinHistories", "plain_shards": 8},
        {"name": "rapid", "kind": "rapid", "test": "TestC13Rapid", "checks": {"quick": 12000, "thorough": 250000}},
    ],
    "rule": "sweep: QR 40 versions x 4 levels x 3 modes x {capacity, previous capacity + 1} x {explicit mode, Auto}; DataMatrix 24 sizes x {capacity, capacity-1, previous "
            "capacity+1}; PDF417 homogeneous contents of every 5th (thorough: every) length up to beyond capacity x levels; Aztec payload lengths 1..capacity "
            "(step 3, thorough 1, growing with length) x 5 percentages x 3 content kinds. rapid: boundary-directed cases from the C01-C04 generators. "
            "Non-trivial = accepted by the encoder; distinct by (symbology, parameters, content).",
    "assumptions": COMMON_ASSUMPTIONS,
}

PROPS["C09"] = {
    "technique": "model-based property testing of Scale/ScaleWithFill: every pixel of every result compared with an integer-factor centred pixel model, over rapid-generated sources/sizes/fills/chains and an exhaustive (width,height) window for fixed sources",
    "level_text": "exploration with an exhaustive size window: sources are real encoder outputs of all families (plain and coloured) and results of earlier scalings; for every requested size the check decides error <=> factor < 1, bounds, every pixel (block grid centred to within one pixel, everything else the fill colour, default fill = source background or white), and equality of Content/Metadata/CheckSum with the source",
    "level_note": "trusted: the pixel model in the harness (about 40 lines); sources are only real encoder outputs and their scalings (origin (0,0), dimensions 1 or 2), as the statement quantifies over barcodes 'from any encoder'",
    "parts": [
        {"name": "regression", "kind": "plain", "test": "TestReplayDir"},
        {"name": "window", "kind": "plain", "test": "TestC09Window"},
        {"name": "giant", "kind": "plain", "test": "TestC09Giant"},
        {"name": "rapid", "kind": "rapid", "test": "TestC09Rapid", "checks": {"quick": 30000, "thorough": 1000000}},
    ],
    "universes": {"source_families": [f"{f} {c}" for f in ("qr", "datamatrix", "aztec", "pdf417", "code128", "code128nc", "code39", "code93", "codabar", "ean", "2of5", "itf") for c in ("plain", "colour")]},
    "rule": "case = (source encoder call, 1..4 scaling steps); each step requests a size drawn from {1..size, size, k*size+0..3, k*size-1, U(1..3*size+2)} with default or "
            "random explicit fill colour (Gray/Gray16/RGBA/NRGBA/CMYK); successful steps feed the next one (chains up to 4). window: fixed small sources x every "
            "(w,h) in 1..3*size+2, each followed by a second scaling. Non-trivial = at least one successful scaling with factor >= 2 or a non-zero margin; "
            "distinct by the whole case.",
    "assumptions": COMMON_ASSUMPTIONS + ["requested width and height are >= 1"],
}

FAMS = ("qr", "datamatrix", "aztec", "pdf417", "code128", "code128nc", "code39", "code93", "codabar", "ean", "2of5", "itf")

PROPS["C11"] = {
    "technique": "differential/metamorphic property testing: each generated encoder call is made plain and WithColor; pixels, ColorModel, ColorScheme, Metadata, Content and the module pattern are compared with the scheme in force and with each other; sizes validated by the reference readers",
    "level_text": "exploration: for all 12 entry-point families x plain/WithColor x schemes over Gray, Gray16, RGBA, NRGBA, CMYK and the four predefined ones: bounds start at (0,0), every pixel is exactly the scheme's foreground or background (interface equality), ColorModel/ColorScheme report the scheme in force (ColorScheme16 for plain), the boolean module pattern is identical between plain and coloured, the pattern is a well-formed symbol of a standard size for its family (reference reader), Metadata kind/dimensions and Content are as documented (EAN completed, Code 39/93 full-ASCII as a basic-alphabet spelling)",
    "level_note": RT_NOTE,
    "parts": [
        {"name": "regression", "kind": "plain", "test": "TestReplayDir"},
        {"name": "sweep", "kind": "plain", "test": "TestC11Sweep"},
        {"name": "rapid", "kind": "rapid", "test": "TestC11Rapid", "checks": {"quick": 40000, "thorough": 1500000}},
    ],
    "universes": {"family_x_scheme": [f"{f} {c}" for f in FAMS for c in ("plain", "colour")],
                  "family_x_model": [f"{f} {m}" for f in FAMS for m in ("gray", "gray16", "rgba", "nrgba", "cmyk", "predefined1", "predefined2", "predefined3", "predefined4")]},
    "rule": "case = one encoder call (family, content from the family's C01-C08 generator in small/medium/any size, parameters) with, in 4 of 5 cases, a colour scheme "
            "(predefined 1..4 or random distinct fore/background in Gray/Gray16/RGBA/NRGBA/CMYK); sweep = 18 fixed calls x 14 schemes + every QR version class, "
            "DataMatrix size, Aztec layer request and PDF417 size class with a coloured scheme. Non-trivial = accepted and coloured; distinct by (call, scheme).",
    "assumptions": COMMON_ASSUMPTIONS,
}

PROPS["C10"] = {
    "oneshot": True, "oneshot_tiers": ("thorough",),
    "technique": "property testing + boundary enumeration of every exported entry point against a three-valued representability oracle (MUST_ACCEPT / MUST_REJECT / EITHER) computed from the standards' capacity tables; panics recovered, hangs caught by a 60 s watchdog; result-shape check by reflection",
    "level_text": "exploration with enumerated boundaries: for every entry point (plain and WithColor) x generated/hostile contents x whole parameter domains (QR 4 levels x 4 modes, PDF417 level byte 0..255, Aztec layers -40..40 and ecc% 0..400, Code 39/93 flags) the call must return without panic, yield exactly one of (barcode, error), accept what the oracle says is representable and reject what it says is not; capacity and capacity+1 of every QR version/level/mode, every DataMatrix size, the 80-rune Code 128 limit, PDF417 and Aztec capacities with homogeneous content are enumerated",
    "level_note": "trusted: the representability oracle of DESIGN.md appendix A (exact for QR, DataMatrix, all linear symbologies, PDF417/Aztec with homogeneous content; sound bounds and EITHER otherwise); undefined QR level/mode constants and negative Aztec percentages are outside the domain; the Aztec empty payload is not judged (known finding of C03)",
    "parts": [
        {"name": "regression", "kind": "plain", "test": "TestReplayDir"},
        {"name": "boundaries", "kind": "plain", "test": "TestC10Boundaries"},
        {"name": "rapid", "kind": "rapid", "test": "TestC10Rapid", "checks": {"quick": 60000, "thorough": 2000000}},
        {"name": "huge", "kind": "plain", "test": "TestC10Huge", "tiers": ("thorough",)},
    ],
    "universes": {"entry_points": [f"{f} {c}" for f in FAMS + ("addchecksum",) for c in ("plain", "colour") if not (f == "addchecksum" and c == "colour")]},
    "rule": "rapid: entry point drawn uniformly from the 12 encoder families + AddCheckSum; content = hostile constant (sign characters, '*', DEL, U+0080, U+00F0..F5, "
            "invalid UTF-8, non-ASCII digits, 80/81-rune strings, ...), arbitrary bytes, a valid content with one boundary character spliced in, or a content from "
            "the family's own generator (any size, incl. capacity +-1); parameters over their whole domains; 1 in 4 through the WithColor variant. boundaries: see "
            "level text, plus every single byte value in three contexts and every hostile constant at every entry point and parameter variant. Non-trivial = "
            "rejected-with-reason, or at a capacity boundary, or containing a boundary character; distinct by (entry point, parameters, content).",
    "assumptions": COMMON_ASSUMPTIONS,
}

PROPS["C15"] = {
    "technique": "stateful property testing over call histories with a differential oracle: every call's fingerprint (pixels + accessors) in a long-lived process and as part of the same history in a fresh process must equal the fingerprint of that call executed alone in a freshly started process; aliasing probes mutate the caller's buffer afterwards",
    "level_text": "exploration: rapid-generated histories of 1..40 encoder calls across all families (weighted to QR/DataMatrix calls whose Reed-Solomon generator degrees arrive in ascending, descending, random order) are executed in the test process (twice each) and in one fresh helper process, and each call is also executed alone in its own fresh process; all fingerprints must agree; inputs are compared with a private copy after the call; for the []byte entry point (Aztec) the buffer is overwritten after the call and Content()/pixels must not move",
    "level_note": "trusted: SHA-256 fingerprint of bounds, all pixels, colour model/scheme, Content, Metadata, CheckSum; the helper binary cmd/oneshot (one process per call); fresh-process comparison is sampled, not exhaustive",
    "oneshot": True,
    "parts": [
        {"name": "regression", "kind": "plain", "test": "TestReplayDir"},
        {"name": "orders", "kind": "plain", "test": "TestC15Orders"},
        {"name": "eviction", "kind": "plain", "test": "TestC15Eviction"},
        {"name": "determinism", "kind": "rapid", "test": "TestC15Determinism", "checks": {"quick": 24000, "thorough": 800000}},
        {"name": "rapid", "kind": "rapid", "test": "TestC15Rapid", "checks": {"quick": 640, "thorough": 24000}, "shrinktime": "60s"},
    ],
    "universes": {"families": list(FAMS)},
    "rule": "case = history of 1..12 (10%: 13..40) encoder calls: pool of one QR/DataMatrix call per distinct Reed-Solomon degree (QR 7..30 check codewords, DataMatrix "
            "5..68) ordered ascending/descending/randomly, mixed with calls from all 12 entry-point families (plain and coloured), sometimes repeating the first call "
            "at the end; orders = the whole pool ascending, descending and in three fixed permutations; determinism = single calls (weighted to the searching / "
            "map-based encoders: Aztec incl. equal-cost mode ties such as a bare CR, PDF417, Code 128, Code 39/93) executed 12 times in-process. Non-trivial = history with >= 2 distinct RS degrees or an "
            "Aztec aliasing probe; distinct by the whole history.",
    "assumptions": COMMON_ASSUMPTIONS + ["a freshly exec'ed helper process is a faithful 'fresh process'"],
}

PROPS["C16"] = {
    "technique": "randomised concurrent stress under the Go race detector (happens-before detection): generated workloads of 2..64 goroutines x GOMAXPROCS 1/2/4/16, in-process and as the very first calls of fresh race-instrumented processes, with a differential oracle (fingerprints equal the sequential results), deadlock watchdog and goroutine-leak check",
    "level_text": "exploration; schedules are not owned, so this is the weakest claim: the race detector reports unsynchronised accesses whenever the two accesses happen in one run (no lucky timing needed), result fingerprints are compared with sequential references, a watchdog catches deadlocks and runtime.NumGoroutine() must return to its pre-workload value; cold-start workloads release all calls of a fresh process through a barrier so that the lazily grown Reed-Solomon caches are first touched concurrently",
    "level_note": "trusted: Go race detector, the fingerprint, the helper binary; not covered: bugs that need one specific interleaving which neither produces a happens-before race nor a wrong result in the explored runs",
    "race": True, "oneshot": True, "race_is_violation": True,
    "parts": [
        {"name": "regression", "kind": "plain", "test": "TestReplayDir"},
        {"name": "leak-sweep", "kind": "plain", "test": "TestC16LeakSweep", "plain_shards": 16},
        {"name": "cold-start", "kind": "plain", "test": "TestC16ColdStart"},
        {"name": "bursts", "kind": "plain", "test": "TestC16Bursts"},
        {"name": "rapid", "kind": "rapid", "test": "TestC16Rapid", "checks": {"quick": 320, "thorough": 16000}, "shrinktime": "60s"},
    ],
    "universes": {"families": list(FAMS)},
    "rule": "case = workload of 2/3/4/8/16/32/64 goroutines released by a barrier, each performing one encoder call (pool of distinct RS degrees, QR error paths that "
            "start producer goroutines, calls of all families) 1..3 times, optionally followed by Scale, under GOMAXPROCS 1/2/4/16; 25% of the workloads run as the "
            "first calls of a fresh race-instrumented process; cold-start part: the whole RS-degree pool and the error-path calls as simultaneous first calls for "
            "each GOMAXPROCS value, rotated; leak-sweep part: single calls, QR numeric/alphanumeric/auto of every length up to 330 (thorough 1800) x 4 levels, "
            "capacity-0..3 of every version, error paths, hostile constants, goroutine count compared after each call. Every case is non-trivial (>= 2 concurrent calls); distinct by the whole workload.",
    "assumptions": COMMON_ASSUMPTIONS,
}

# native coverage-guided fuzzing, thorough tier only (wall-clock budget; see DESIGN.md section 2)
for _pid, _secs in (("C01", 150), ("C02", 120), ("C03", 180), ("C04", 180), ("C05", 90), ("C10", 180)):
    PROPS[_pid]["parts"].append({"name": "native-fuzz", "kind": "fuzz", "test": "Fuzz" + _pid, "tiers": ("thorough",), "fuzztime": {"thorough": _secs}})

# ---- additions to the rule texts (generator features added after the seeded-change waves)
RULE_ADDENDA = {'C09': ' One case in five is a deep history (4..9 steps of small enlargements); one step in four scales the previous parent once more (tree-shaped histories); every earlier result of at most 150000 pixels is re-read after later steps and must be what it was.',
 'C01': ' One rapid case in twelve is a boundary-seeking case: a growing content family prefix+fill(n)+suffix, the smallest n at which the returned symbol '
        "outgrows a drawn version is found by bisection on the library's own answers, and the check runs on n-2..n+1 (the implementation's size transitions, "
        'wherever they are).',
 'C02': " One rapid case in twenty is a boundary-seeking case (bisection on the library's own size answers for a growing content family; check on n-2..n+1).",
 'C03': " One rapid case in twenty is a boundary-seeking case (bisection on the library's own size answers for a growing payload family at a drawn percentage; "
        'check on n-2..n+1).',
 'C04': " One rapid case in twenty is a boundary-seeking case (bisection on the library's own symbol area for a growing content family at a drawn level; check "
        'on n-2..n+1).',
 'C06': ' One rapid case in five draws its digits from a palette of one or two values; the covering part also enumerates the periodic two-digit patterns '
        'abab.. for all 100 (a,b) as 7/12 digits and as 8/13 digits with each last digit.',
 'C10': ' Boundaries also hold every homogeneous character class (incl. Aztec two-character PUNCT codes, lower case) at 40..150% of the largest Aztec symbol '
        'and 30..97% of the PDF417 capacity of every level.',
 'C13': ' twin-histories: QR boundary pairs (each capacity / capacity+1 content of every (version, level, mode) with the cross-mode content of equal stream '
        "length in bits and with the other modes' boundary contents of the same version), both orders, strictly sequential in 8 fresh processes; quick: "
        'versions 1..14, every third above, and 40.',
 'C15': ' orders also: a rotating sample of the QR boundary pairs of C13 as two-call histories (fresh process running both against fresh processes running '
        'each alone).',
 'C16': ' cold start also: first calls of every size class of every 2D symbology (40 QR versions, 24 DataMatrix sizes, 36 Aztec sizes, 9 PDF417 levels), all '
        'at once and one class at a time (four calls of one class released together).',
 'C17': " Dividends also as exact multiples of the divisor (+ short remainder), operands equal up to one coefficient; results must be usable by the library's "
        'own operations. Reed-Solomon data also chosen (linear system over the reference field) so that the check symbols have 1..4 leading / trailing / inner '
        'zeros; histories may contain impossible requests (count > size-1 or negative) whose own outcome is not judged; every Encode under a 20 s watchdog.',
 'C18': ' Variadic appends also in structured patterns (all zero, ones-then-zeros, zeros-then-ones, single one, zero words) with word-multiple lengths; plus a '
        'sweep of one variadic append of 32..4097 bits x 7 patterns from 31 start lengths.'}
RULE_ADDENDA['C01'] += ' zero-ecc part: full-capacity byte contents whose last Reed-Solomon block has check words with leading / trailing / inner zeros (solved over GF(2) with the reference arithmetic), versions 1..12 (thorough 1..40) x 4 levels x 5 patterns. Sweep also: every byte value in five surroundings x four modes.'
RULE_ADDENDA['C02'] += ' zero-ecc part: single-block sizes, full-capacity contents whose check words have leading / trailing / inner zeros (solved over GF(256) with the reference arithmetic). Sweep also: every byte value in six surroundings.'
RULE_ADDENDA['C04'] += ' Sweep also: every byte value in seven surroundings.'
RULE_ADDENDA['C15'] += ' One history in three contains a near-twin of one of its calls (same content with one parameter changed, or same parameters with the content reversed / rotated / two characters swapped). The aliasing probe overwrites the input both after and before the first read of the returned barcode.'
for _pid in ('C01', 'C02', 'C03', 'C04', 'C05', 'C07', 'C08'):
    RULE_ADDENDA[_pid] = RULE_ADDENDA.get(_pid, '') + ' magic part: ~190 contents with a meaning to barcode software beyond their bytes (byte order marks, ISO 15434 envelopes, GS1 element strings and symbology identifiers, FNC1/GS separators, ECI escapes, Code 39 start/stop and full-ASCII escapes, Shift-JIS bytes, vCard/Wi-Fi/URL payloads, blanks at the edges), alone and embedded, through every mode / option mix.'
for _pid in ('C01', 'C02', 'C03', 'C04', 'C05', 'C06', 'C07', 'C08'):
    RULE_ADDENDA[_pid] = RULE_ADDENDA.get(_pid, '') + ' One accepted case in four is encoded again through the WithColor entry point with a non-default scheme and must draw the same module pattern; every pixel read also compares RGBA64At (if offered) and an image/draw rendering with At().'
RULE_ADDENDA['C14'] = " Entry points: Encode and EncodeWithColor (one case in four), and Code 128's no-checksum variants (judged when they expose CheckSum()); scaling rounds alternate Scale and ScaleWithFill with fills outside the barcode's colour model."
RULE_ADDENDA['C16'] += ' bursts also: 64 goroutines encoding adjacent sub-slices of one caller-owned buffer (Aztec, the []byte entry point), results compared with the same bytes alone and the buffer compared afterwards.'
RULE_ADDENDA['C17'] += ' Operands (polynomial objects and the slices handed to NewGFPoly) must be unchanged after every operation; every slice returned by Encode is overwritten before the next call of the history.'
RULE_ADDENDA['C18'] += ' AddBits counts up to 255 (bits above 63 = sign); iter2 = a second channel view opened while the first is half read, both must yield the whole sequence.'
RULE_ADDENDA['C09'] += ' One case in forty starts with a print-sized enlargement (factor 20..130, up to 2 million pixels); results also read through RGBA64At / image/draw.'
for _pid in ('C01', 'C02', 'C03', 'C04', 'C05', 'C06', 'C07', 'C08'):
    RULE_ADDENDA[_pid] = RULE_ADDENDA.get(_pid, '') + ' hash-twins part: pairs of different contents with the same FNV-1a / FNV-1 / CRC-32 / CRC-32C / Adler-32 / djb2 / 31x hash (birthday search over the family alphabet), each run as A, B, A in one process.'
for _pid in ('C07', 'C08'):
    RULE_ADDENDA[_pid] = RULE_ADDENDA.get(_pid, '') + ' long part: contents of 4000, 30000 and 70000 high-valued characters through every entry point (no length limit exists).'
RULE_ADDENDA['C06'] += ' magic part: decorated forms of valid numbers (interpretation-line blanks/hyphens, symbology identifiers ]E0/]E4, labels, add-ons, signs, surrounding whitespace, digits of other scripts): all must be rejected.'
RULE_ADDENDA['C09'] += ' giant part: 20 poster-/banner-sized targets per source (up to beyond 2^32 pixels, extreme aspect ratios), decision, bounds, accessors and a sparse pixel sample (corners, symbol-area borders, block borders, scatter) compared with the model.'
RULE_ADDENDA['C15'] += ' orders also: QR stream twins (same version/level, codeword streams with equal 32-bit digests) and 28 prefix-then-extension histories (cuts through multi-character units) as two-call histories; a result that exposes a Set method is painted over before the call is repeated.'
RULE_ADDENDA['C17'] += ' A second division by the same divisor object after its leading coefficient was changed; data lengths up to 4097 symbols.'
RULE_ADDENDA['C18'] += ' iterhold = a view read to exactly its length and kept: it must yield nothing more after later appends; one slow consumer (2.5 s pause, thorough 11 s).'
RULE_ADDENDA['C10'] += ' Also lengths that wrap 16-/17-bit counters (2^16, 2^16+5, 2^16+1000, 2^17, ...) for every 2D symbology, and the same foreign byte twice at pair starts / pair ends.'
RULE_ADDENDA['C11'] = ' Schemes also: black/white/red written in seven colour types (look-alikes), a caller-defined colour type, *image.Uniform.'
for _pid in ('C01', 'C02', 'C03', 'C04'):
    RULE_ADDENDA[_pid] = RULE_ADDENDA.get(_pid, '') + ' procs part: a dozen multi-block symbols encoded and read back under every GOMAXPROCS value 1..12.'
RULE_ADDENDA['C15'] += ' eviction part: one call, 20000 (2D: 9000) different small calls of the same family, the first call (and four of the early others) again.'
RULE_ADDENDA['C03'] += ' The payload is handed over as a window into a larger guard buffer that is compared afterwards.'
RULE_ADDENDA['C17'] += ' Reed-Solomon data is a window into a larger guard buffer; polynomials returned by earlier operations are overwritten (unless they are the operands themselves) before a fresh division.'
RULE_ADDENDA['C18'] += ' Variadic appends are windows into a larger guard buffer; thorough: one list of 2^32+4096 bits spot-checked around the 2^32 boundary.'
RULE_ADDENDA['C16'] += ' Also: GOMAXPROCS 3/5/6/7; 48 goroutines making the same call at once, then one result painted over through its mutator (the others must stay what they were).'
RULE_ADDENDA['C14'] += ' exhaustive part also: an early content checked again after 20000 other contents; one character repeated 66000/70000 times.'
RULE_ADDENDA['C10'] += ' PDF417 also: >= 5 upper-case characters followed by >= 13 digits sized to the budget, -1, -3, +1 (exact count).'
RULE_ADDENDA['C09'] += ' A result exposes CheckSum() exactly when its source does; a result that reports a colour scheme is drawn in it; giant part also scales giant SOURCES (a view of more than 10^9 pixels a side).'
RULE_ADDENDA['C11'] += ' Sweep also: a slice-based colour type and color.Palette as the model (values that cannot be compared with ==).'
RULE_ADDENDA['C07'] += ' thorough: 8 million characters (32-bit sums).'
RULE_ADDENDA['C10'] += ' Thorough tier only: inputs of 1 to 16 million characters (Aztec, PDF417, DataMatrix, QR, Code 128, EAN, Codabar; 1-2 million for 2 of 5 and Code 39/93), each in a process of its own; a process that dies of stack exhaustion or a fatal error is a violation, a time limit or out-of-memory is not judged.'
RULE_ADDENDA['C14'] += ' Thorough tier only: Code 39 contents of 3 and 51.2 million characters (the sum of character values reaches 2^31), CheckSum() only.'
RULE_ADDENDA['C16'] += ' Crowd bursts: 600 simultaneous callers of one 2D family with 400-character contents.'
RULE_ADDENDA['C18'] += ' Byte views of every length 0..8300 and around 2^14..2^17 (fresh zero list and appended pattern) under a watchdog.'
RULE_ADDENDA['C15'] += ' Eviction part: the first call is also repeated after exactly 255, 256, 257, 8192 (1D and DataMatrix, thorough all: 32768, 65535, 65536) other calls; the Aztec probe reuses the caller buffer for a second payload.'
RULE_ADDENDA['C17'] += ' Check-symbol counts up to 4095 for GF(1024)/GF(4096); operands on two separately constructed instances of the same field.'
RULE_ADDENDA['C14'] += ' Also: scaling to a height of 0; the exported utils constructors of 1D codes with a checksum.'
RULE_ADDENDA['C06'] += ' Magic part also: digit strings of length 7/8/12/13 modulo 256 and modulo 65536.'
RULE_ADDENDA['C09'] += ' Giant part also: default fill of a scheme-less source while barcode.ColorScheme16 is reassigned.'
for _pid in ('C01', 'C02', 'C03', 'C04'):
    RULE_ADDENDA[_pid] += ' (procs part: also GOMAXPROCS 16, 17, 24, 32, 48, 64, 100.)'
RULE_ADDENDA['C01'] += ' Hash-twins part also: pairs of full-capacity contents whose codeword streams (single-block versions) have equal 32-bit digests.'
for _pid in ('C01', 'C02', 'C03', 'C04'):
    RULE_ADDENDA[_pid] += ' Painted part: in a process of its own the first result of every size class is painted over through its exposed mutators, then the next symbols of the class are validated.'
RULE_ADDENDA['C03'] += ' The empty payload (recorded finding F11) is excluded only as far as its recorded symptom goes: any other defect of its symbol is reported.'
RULE_ADDENDA['C09'] += ' Giant part also: million-pixel 2D sources re-scaled to 2^44..2^52 pixels a side (cross products beyond 2^63).'
RULE_ADDENDA['C13'] += ' Sweep also: for every Aztec size x every percentage 0..100 x two character classes the longest payload the explicit request accepts (bisection), encoded with automatic sizing.'
RULE_ADDENDA['C15'] += ' Orders part also: pairs of Aztec calls whose arguments read the same without a delimiter (payload A3 / 3 % against payload A / 33 %).'
RULE_ADDENDA['C17'] += ' RS histories append to every returned slice (now or after the next call) and hold all earlier results.'
RULE_ADDENDA['C18'] += ' The byte-view sweep also holds 16 lengths between 2^20 and 2^25+72 bits.'

# The deterministic round-trip parts once more with the library and the harness built for a 32-bit platform (GOARCH=386; the
# binary runs natively on linux/amd64): arithmetic that silently needs a 64-bit int.
for _pid, _tests in (("C01", ("Magic", "Sweep", "ZeroECC")), ("C02", ("Magic", "Sweep", "ZeroECC")), ("C03", ("Magic", "Sweep")), ("C04", ("Magic", "Sweep")),
                     ("C05", ("Magic",)), ("C06", ("Magic",)), ("C07", ("Magic",)), ("C08", ("Magic",))):
    for _t in _tests:
        PROPS[_pid]["parts"].append({"name": _t.lower() + "-386", "kind": "plain", "test": "Test" + _pid + _t, "arch": "386"})
    RULE_ADDENDA[_pid] += ' The deterministic parts (' + ", ".join(_tests) + ') run a second time in a 32-bit build (GOARCH=386) of library and harness.'
for _pid, _add in RULE_ADDENDA.items():
    PROPS[_pid]["rule"] += _add
