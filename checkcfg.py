"""Per-property configuration of ./check: which Go tests form the check, budgets per tier,
the non-triviality rule and the assumptions that go into the evidence file."""

COMMON_ASSUMPTIONS = [
    "the Go toolchain, the race detector and pgregory.net/rapid v1.3.0 behave as documented",
    "oracles (reference decoders / models in harness/ref) are written from the standards and self-tested at the start of every run; "
    "a misreading of a standard shared by the encoder's author and the oracle's author would go unnoticed",
    "absence of a violation in the explored cases is not a proof of absence",
]

PROPS = {}

PROPS["C18"] = {
    "technique": "model-based stateful property testing (rapid) + bounded exhaustive enumeration of operation sequences against a []bool model",
    "level_text": "exploration: random and exhaustively enumerated operation sequences on utils.BitList are compared with a []bool reference model after every step (all bits, packed bytes, channel view); right level because the property quantifies over unbounded histories and the model is trivially correct",
    "level_note": "trusted: the []bool model and the packing function in the harness; inputs limited to indices < Len() and AddBits counts 0..64",
    "parts": [
        {"name": "regression", "kind": "plain", "test": "TestReplayDir"},
        {"name": "exhaustive", "kind": "plain", "test": "TestC18Exhaustive"},
        {"name": "rapid", "kind": "rapid", "test": "TestC18Rapid", "checks": {"quick": 40000, "thorough": 1500000}},
    ],
    "rule": "cases are operation sequences (NewBitList(n)/zero value, then up to 25 of AddBit/AddBits/AddByte/bulk AddBit(...)/SetBit/GetBit/"
            "GetBytes/IterateBytes) executed against utils.BitList and a []bool model, compared after every step; lengths are biased to "
            "31/32/33, 4095/4096/4097 and the 128-/1024-word growth steps; exhaustive part: every sequence up to the depth bound over a 9-op "
            "alphabet from 7 start states. Non-trivial = at least 2 operations and (the list grew past its initial allocation or a SetBit "
            "happened after an append); distinct by the full operation sequence.",
    "assumptions": COMMON_ASSUMPTIONS + ["indices passed to SetBit/GetBit are always below Len() (the documented domain)",
                                         "AddBits counts are 0..64 (an int has 64 bits)"],
}

PROPS["C17"] = {
    "technique": "exhaustive enumeration of all operand pairs per field + rapid-generated polynomials and Reed-Solomon call histories against schoolbook GF(2^m) arithmetic and an LFSR reference encoder",
    "level_text": "exploration with exhaustive sub-domains: every operand pair of all 6 fields (x base 0/1) is compared with carry-less multiply-and-reduce arithmetic (Multiply, commutativity, Divide, Invers), all triples of the small fields for associativity; random polynomials check dividend = q*d + r; histories of Encode calls on one encoder are compared with an independent shift-register encoder and root evaluation",
    "level_note": "trusted: harness/ref/gf.go (schoolbook arithmetic, ~120 lines, no tables); domain: divisor != 0, 1 <= check symbols <= min(600, size-1), symbols within the field",
    "parts": [
        {"name": "regression", "kind": "plain", "test": "TestReplayDir"},
        {"name": "field-exhaustive", "kind": "plain", "test": "TestC17FieldExhaustive"},
        {"name": "rs-degrees", "kind": "plain", "test": "TestC17RSDegrees"},
        {"name": "rapid", "kind": "rapid", "test": "TestC17Rapid", "checks": {"quick": 6000, "thorough": 300000}},
    ],
    "rule": "exhaustive: all (a,b) of GF(16), GF(64), GF(256)/0x11D, GF(256)/0x12D, GF(1024), GF(4096), each with base 0 and 1 (non-trivial = a != 0, "
            "distinct by enumeration); all triples for associativity up to 64 (quick) / 256 (thorough) elements. rapid: 200 random triples per case "
            "for the larger fields; polynomial pairs of length 1..60 incl. zero polynomial, leading zeros, monomials (non-trivial = both non-zero); "
            "Reed-Solomon histories of 1..6 Encode calls on one encoder with check-symbol counts 1..min(600,size-1) in ascending/descending/"
            "repeated/mixed order and data lengths 0..300 (non-trivial = at least 2 calls); rs-degrees: every count once ascending and descending.",
    "assumptions": COMMON_ASSUMPTIONS + ["Divide/Invers are only required for non-zero divisors; Encode only for 1 <= eccCount <= size-1"],
}
